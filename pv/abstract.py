"""Abstract constraint domain for the algebra layer (stub S5).

A term is an uninterpreted predicate: a concrete set of variables plus its truth value
at one arbitrary behaviour (a z3 Bool).  Identity is by uid (copies keep it).  The
primitives are nondeterministic and constrained only by their documented contracts,
instantiated at that behaviour:

    elim_vars_by_refining : raise ValueError | per affected term: leave it | replace it by a fresh
                            predicate;                      assume  ctx ∧ new ⇒ old
    elim_vars_by_relaxing : same choices, terms that still mention eliminated variables are dropped
                            (documented: the result lacks them);   assume  ctx ∧ old ⇒ new
    simplify              : raise ValueError assuming ¬(ctx ∧ self) | drop an arbitrary subset,
                            assume ctx ⇒ (new ⇔ old)
    refines               : arbitrary Boolean r, assume r ⇒ (self ⇒ other)

Every documented contract is a universally quantified pointwise implication, and so are
the obligations of C01/C02/C08; validity at an arbitrary behaviour with the contracts
instantiated there is validity.
"""
from __future__ import annotations

import z3

from . import engine as E


def make(ctx, mode="adversarial"):
    """Returns (ATerm, ATermList) classes bound to this path's context."""
    from pacti.iocontract import Term, TermList
    from pacti.utils.lists import list_diff, list_intersection, list_union

    state = {"n": 0}

    class ATerm(Term):
        def __init__(self, vars_, truth=None, uid=None):
            self._vars = list(vars_)
            if uid is None:
                state["n"] += 1
                uid = state["n"]
            self.uid = uid
            self.truth = truth if truth is not None else ctx.boolconst(f"P{uid}")

        @property
        def vars(self):
            return list(self._vars)

        def contains_var(self, v):
            return v in self._vars

        def __eq__(self, o):
            return isinstance(o, ATerm) and o.uid == self.uid

        def __hash__(self):
            return hash(self.uid)

        def __str__(self):
            return f"P{self.uid}{[v.name for v in self._vars]}"

        __repr__ = __str__

        def copy(self):
            return ATerm(self._vars, self.truth, self.uid)

        def rename_variable(self, s, t):
            vs = []
            for v in self._vars:
                w = t if v == s else v
                if w not in vs:
                    vs.append(w)
            return ATerm(vs, self.truth, self.uid)

    def conj(tl):
        return z3.And(*[t.truth for t in tl.terms]) if tl.terms else z3.BoolVal(True)

    class ATermList(TermList):
        calls = []  # log of primitive calls on this path (for evidence / culprit)

        def __hash__(self):
            return hash(tuple(self.terms))

        def contains_behavior(self, b):
            raise NotImplementedError

        def is_empty(self):
            raise NotImplementedError

        def _elim(self, context, vars_to_elim, refine):
            eng = E.ENGINE
            ATermList.calls.append("refine" if refine else "relax")
            if mode != "obedient" and eng.choose("raiseVE"):
                raise ValueError("primitive failed")
            new = []
            extra = list_diff(context.vars, vars_to_elim)
            for t in self.terms:
                if list_intersection(t.vars, vars_to_elim):
                    if mode != "obedient" and eng.choose("leftover"):
                        new.append(t.copy())  # the tactic could not transform the term
                    else:
                        vs = list_diff(t.vars, vars_to_elim)
                        if extra and (mode == "obedient" or eng.choose("mention-context")):
                            vs = list_union(vs, extra)
                        new.append(ATerm(vs))
                else:
                    new.append(t.copy())
            res = ATermList(new)
            if refine:
                eng.assume(z3.Implies(z3.And(conj(context), conj(res)), conj(self)))
            else:
                eng.assume(z3.Implies(z3.And(conj(context), conj(self)), conj(res)))
            return res

        def elim_vars_by_refining(self, context, vars_to_elim, simplify=True, tactics_order=None):
            return self._elim(context, vars_to_elim, True), []

        def elim_vars_by_relaxing(self, context, vars_to_elim, simplify=True, tactics_order=None):
            r = self._elim(context, vars_to_elim, False)
            r.terms = [t for t in r.terms if not list_intersection(t.vars, vars_to_elim)]
            return r, []

        def simplify(self, context=None):
            eng = E.ENGINE
            ATermList.calls.append("simplify")
            ctxf = conj(context) if context is not None else z3.BoolVal(True)
            if mode != "obedient" and eng.choose("simplifyVE"):
                eng.assume(z3.Not(z3.And(ctxf, conj(self))))
                raise ValueError("unsatisfiable in context")
            keep = [t.copy() for t in self.terms if not (mode != "obedient" and eng.choose("drop"))]
            res = ATermList(keep)
            eng.assume(z3.Implies(ctxf, conj(res) == conj(self)))
            return res

        def refines(self, other):
            eng = E.ENGINE
            ATermList.calls.append("refines")
            r = eng.choose("refines")
            if r:
                eng.assume(z3.Implies(conj(self), conj(other)))
            return r

    ATermList.calls = []
    return ATerm, ATermList, conj
