"""Builders shared by the harnesses: pacti objects from JSON-able shape descriptions."""
from __future__ import annotations

import itertools
import random

DOCUMENTED = {
    "IncompatibleArgsError": "IAE",
    "ValueError": "VE",
    "PolyhedralSyntaxException": "SYNTAX",
    "PolyhedralSyntaxConvexException": "CONVEX",
    "ContractFormatError": "CFE",
}


def P():
    import pacti.terms.polyhedra.polyhedra as P_

    return P_


def Var(n):
    from pacti.iocontract import Var as V

    return V(n)


def mk_term(ctx, coefs, cname):
    P_ = P()
    return P_.PolyhedralTerm({Var(n): c for n, c in coefs.items()}, ctx.const(cname))


def mk_tl(ctx, spec, prefix):
    """spec: list of {var name: concrete coefficient}; constants are harness constants."""
    P_ = P()
    return P_.PolyhedralTermList([mk_term(ctx, cf, f"{prefix}{i}") for i, cf in enumerate(spec)])


def mk_contract(ctx, spec, prefix, simplify=False):
    """spec: {"in": [...], "out": [...], "a": [rows], "g": [rows]}"""
    from pacti.contracts import PolyhedralIoContract

    return PolyhedralIoContract(
        mk_tl(ctx, spec["a"], prefix + "a"),
        mk_tl(ctx, spec["g"], prefix + "g"),
        [Var(n) for n in spec["in"]],
        [Var(n) for n in spec["out"]],
        simplify=simplify,
    )


def classify(e):
    """Outcome class of an exception raised by pacti."""
    n = type(e).__name__
    return DOCUMENTED.get(n, "ESC:" + n)


def innermost_pacti_frame(e):
    tb = e.__traceback__
    last = None
    while tb is not None:
        fn = tb.tb_frame.f_code.co_filename
        if "/pacti/" in fn:
            last = tb.tb_frame.f_code.co_name
        tb = tb.tb_next
    return last or "?"


# ---- shape generators ---------------------------------------------------------------


def rterm(rng, names, alphabet, must=None, max_nz=None):
    for _ in range(200):
        d = {v: rng.choice(alphabet) for v in names}
        d = {k: c for k, c in d.items() if c}
        if max_nz is not None and len(d) > max_nz:
            continue
        if d and (must is None or any(m in d for m in must)):
            return d
    return {must[0] if must else names[0]: 1}


def all_terms(names, alphabet):
    out = []
    for cs in itertools.product(alphabet, repeat=len(names)):
        d = {n: c for n, c in zip(names, cs) if c}
        if d:
            out.append(d)
    return out


TACTIC_SINGLES = [[1], [2], [3], [4], [5]]
TACTIC_DEFAULT = [1, 2, 3, 4, 5]


def tactic_orders(rng, n_perm=3, with_empty=True):
    out = [list(t) for t in TACTIC_SINGLES] + [list(TACTIC_DEFAULT)]
    if with_empty:
        out.append([])
    for _ in range(n_perm):
        k = rng.randint(2, 5)
        out.append(rng.sample(TACTIC_DEFAULT, k))
    return out


class Pinned:
    """Context wrapper that hands out pinned (concrete) constants instead of symbols for the given names."""

    def __init__(self, ctx, conc):
        self._ctx, self._conc = ctx, conc

    def __getattr__(self, n):
        return getattr(self._ctx, n)

    def const(self, name, lo=None, hi=None):
        if name in self._conc:
            return float(self._conc[name])
        return self._ctx.const(name, lo, hi)
