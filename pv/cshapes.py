"""Shapes of contract pairs (interfaces + coefficient patterns) for C01/C02/C08/C15/C13/C14."""
from __future__ import annotations

from . import build as B


def rand_contract(rng, ins, outs, alphabet, na=(0, 1, 2), ng=(1, 2), a_vars=None):
    """Random coefficient pattern for a contract over the given interface."""
    zero_alpha = list(alphabet) + [0, 0]
    a_vars = ins if a_vars is None else a_vars
    a = []
    if a_vars:
        for _ in range(rng.choice(na)):
            a.append(B.rterm(rng, a_vars, zero_alpha, max_nz=3))
    g = []
    for _ in range(rng.choice(ng)):
        g.append(B.rterm(rng, ins + outs, zero_alpha, must=outs, max_nz=3))
    return {"in": list(ins), "out": list(outs), "a": a, "g": g}


WIRINGS = {
    # name: (c1 ins, c1 outs, c2 ins, c2 outs, variables c1.a may mention, variables c2.a may mention)
    "independent": (["x"], ["y"], ["u"], ["v"], None, None),
    "cascade": (["x"], ["y"], ["y"], ["z"], None, None),
    "cascade-wide": (["x", "u"], ["y"], ["y", "v"], ["z"], None, None),
    "cascade-2links": (["x"], ["y", "w"], ["y", "w"], ["z"], None, None),
    "shared-input": (["x"], ["y"], ["x"], ["z"], None, None),
    "shared-input-cascade": (["x"], ["y"], ["x", "y"], ["z"], None, None),
    "feedback-free": (["x", "z"], ["y"], ["y"], ["z"], ["x"], []),
}


def compose_pair(rng, wiring, alphabet):
    i1, o1, i2, o2, av1, av2 = WIRINGS[wiring]
    c1 = rand_contract(rng, i1, o1, alphabet, a_vars=av1)
    c2 = rand_contract(rng, i2, o2, alphabet, a_vars=av2)
    return c1, c2


CURATED_COMPOSE = [
    # (name, c1, c2, keep)
    (
        "doc-cascade",
        {"in": ["x"], "out": ["y"], "a": [{"x": 1}], "g": [{"y": 1, "x": -2}]},
        {"in": ["y"], "out": ["z"], "a": [{"y": 1}], "g": [{"z": 1, "y": -1}]},
        [],
    ),
    (
        "two-sided-bounds",
        {"in": ["x"], "out": ["y"], "a": [{"x": 1}, {"x": -1}], "g": [{"y": 1, "x": -1}, {"y": -1, "x": 1}]},
        {"in": ["y"], "out": ["z"], "a": [{"y": 1}, {"y": -1}], "g": [{"z": 1, "y": -2}, {"z": -1, "y": 2}]},
        [],
    ),
    (
        "keep-internal",
        {"in": ["x"], "out": ["y"], "a": [{"x": 1}], "g": [{"y": 1, "x": -1}, {"y": -1}]},
        {"in": ["y"], "out": ["z"], "a": [{"y": 1}], "g": [{"z": 1, "y": 1}]},
        ["y"],
    ),
    (
        "assumption-needs-guarantee",
        {"in": ["x"], "out": ["y"], "a": [], "g": [{"y": 1, "x": -1}, {"y": -1, "x": -1}]},
        {"in": ["y"], "out": ["z"], "a": [{"y": 1}, {"y": -1}], "g": [{"z": 1, "y": -1}]},
        [],
    ),
    (
        "shared-input-dup-guarantee",
        {"in": ["x"], "out": ["y"], "a": [], "g": [{"y": 1, "x": -1}, {"x": 1}]},
        {"in": ["x"], "out": ["z"], "a": [], "g": [{"z": 1, "x": -1}, {"x": 1}]},
        [],
    ),
    (
        "feedback-free",
        {"in": ["x", "z"], "out": ["y"], "a": [{"x": 1}], "g": [{"y": 1, "x": -1, "z": -1}]},
        {"in": ["y"], "out": ["z"], "a": [], "g": [{"z": 2, "y": -1}, {"z": -1}]},
        [],
    ),
    (
        "independent",
        {"in": ["x"], "out": ["y"], "a": [{"x": 1}], "g": [{"y": 1, "x": 1}]},
        {"in": ["u"], "out": ["v"], "a": [{"u": -1}], "g": [{"v": 1, "u": -1}]},
        [],
    ),
    (
        # three producer guarantees can all be tight at one vertex of the (y1, y2) plane: tactic 5 must pick rows
        # whose multipliers all have the right sign when refining the consumer's assumption
        "degenerate-vertex",
        {"in": ["x"], "out": ["y1", "y2"], "a": [{"x": 1}], "g": [{"y1": 1, "x": -1}, {"y1": 1, "y2": -1}, {"y1": 1, "y2": 1}]},
        {"in": ["y1", "y2", "w"], "out": ["z"], "a": [{"y1": 1, "y2": 1, "w": -1}], "g": [{"z": 1, "w": -1}]},
        [],
    ),
    (
        # the producer constrains only its two outputs (a region of the (v1, v2) plane); the consumer's guarantee weights
        # them differently: tactic 2 optimises 2 v1 + v2 over that region (objective must follow the matrix columns)
        "two-internal-region",
        {"in": [], "out": ["v1", "v2"], "a": [], "g": [{"v2": -1, "v1": -1}, {"v2": -1, "v1": 1}, {"v2": 1, "v1": -1}]},
        {"in": ["v1", "v2"], "out": ["o"], "a": [], "g": [{"v1": 2, "v2": 1, "o": 1}]},
        [],
    ),
    (
        # the consumer's assumption needs a lower bound on y that is only reachable through a two-step chain y >= w >= i
        "chain-lower-bound",
        {"in": ["i"], "out": ["y", "w"], "a": [], "g": [{"y": -1, "w": 1}, {"w": -1, "i": 1}]},
        {"in": ["y"], "out": ["z"], "a": [{"y": -1}], "g": [{"z": 1, "y": -1}]},
        [],
    ),
    (
        "chain-upper-bound",
        {"in": ["i"], "out": ["y", "w"], "a": [], "g": [{"y": 1, "w": -1}, {"w": 1, "i": -1}]},
        {"in": ["y"], "out": ["z"], "a": [{"y": 1}], "g": [{"z": 1, "y": -1}]},
        [],
    ),
    (
        "two-eliminated",
        {"in": ["x"], "out": ["y", "w"], "a": [{"x": 1}], "g": [{"y": 1, "x": -1}, {"w": 1, "x": 1}, {"w": -1}]},
        {"in": ["y", "w"], "out": ["z"], "a": [{"y": 1, "w": 1}], "g": [{"z": 1, "y": -1, "w": -1}]},
        [],
    ),
]
