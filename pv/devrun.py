"""Developer helper: run the symbolic phase of one job family and print a census.

    python -m pv.devrun <Cxx> <kind-prefix> [tier] [n-examples]
"""
import collections
import concurrent.futures as cf
import importlib
import multiprocessing as mp
import sys
import time

from .driver import sym_worker


def main(argv):
    prop, kind = argv[0], argv[1]
    tier = argv[2] if len(argv) > 2 else "quick"
    nex = int(argv[3]) if len(argv) > 3 else 5
    mod = importlib.import_module(f"pv.props.{prop}")
    jobs = [j for j in mod.jobs(tier, 0) if j["kind"].startswith(kind)]
    print(len(jobs), "jobs")
    c = collections.Counter()
    fails = []
    t0 = time.time()
    slow = []
    with cf.ProcessPoolExecutor(16, mp_context=mp.get_context("spawn")) as ex:
        for r in ex.map(sym_worker, [(prop, j, {"trace_functions": False}) for j in jobs]):
            if r["error"]:
                print(r["error"])
                continue
            slow.append((r["wall"], r["stats"].get("paths"), r["job"]))
            for p in r["paths"]:
                c[p.get("cls", "abort:" + p.get("abort", ""))] += 1
                for t in p.get("tags", []):
                    c["tag:" + t] += 1
                for o in p.get("obligations", []):
                    if o["status"] != "ok":
                        c["FAIL:" + o["label"]] += 1
                        fails.append((r["job"], o))
    print(dict(c), "wall", round(time.time() - t0, 1))
    slow.sort(key=lambda x: -x[0])
    for w, np_, j in slow[:3]:
        print("slowest", round(w, 1), np_, j)
    for j, o in fails[:nex]:
        jj = {k: v for k, v in j.items() if k not in ("tree",)}
        print(o["label"], "|", o.get("info"), "|", [w["consts"] for w in o.get("witnesses", [])][:1], "|", str(jj)[:300])


if __name__ == "__main__":
    main(sys.argv[1:])
