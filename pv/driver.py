"""Check driver: jobs -> symbolic exploration (parallel) -> replay on the real code -> verdict."""
from __future__ import annotations

import concurrent.futures as cf
import hashlib
import importlib
import json
import multiprocessing as mp
import os
import random
import subprocess
import sys
import time
import traceback
from fractions import Fraction

VERIF = os.path.dirname(os.path.dirname(os.path.abspath(__file__)))
OUT = os.environ.get("PV_OUT", VERIF)  # evidence/ and replays/ go here (self-test redirects them)
EXIT_OK, EXIT_VIOLATION, EXIT_INCONCLUSIVE = 0, 1, 2


# =====================================================================================
# per-path context handed to harnesses
# =====================================================================================
class Ctx:
    def __init__(self, eng, witness=None):
        import z3

        from . import engine as E

        self.E = E
        self.z3 = z3
        self.eng = eng
        self.mode = eng.mode
        self.witness = witness
        self.consts = {}  # name -> z3 Real (sym mode)
        self.bools = {}  # name -> z3 Bool (sym mode; abstract-domain harnesses)
        self.scripted = False  # harness forks on nondeterministic choices: replays need the decision script
        if self.mode == "real" and witness is not None and "__decisions__" in witness:
            eng.script = list(witness["__decisions__"])
            eng.script_pos = 0
        self.obligations = []  # dicts
        self.tags = []
        self.n_fail = 0

    # ---- constants ---------------------------------------------------------------
    def const(self, name, lo=None, hi=None):
        if self.mode == "real":
            return float(Fraction(self.witness[name]))
        z = self.z3.Real("k_" + name)
        self.consts[name] = z
        if lo is not None:
            self.eng.assume(z >= self.E.q(lo))
        if hi is not None:
            self.eng.assume(z <= self.E.q(hi))
        return self.E.SymReal(z)

    def boolconst(self, name):
        """Truth value of an uninterpreted predicate at the arbitrary behaviour."""
        if self.mode == "real":
            return self.z3.BoolVal(bool(self.witness.get("__bools__", {}).get(name, False)))
        z = self.z3.Bool("b_" + name)
        self.bools[name] = z
        return z

    def tag(self, t):
        if t not in self.tags:
            self.tags.append(t)

    # ---- obligations ---------------------------------------------------------------
    def obligation(self, label, negated_property, info=None):
        """The property holds on this path iff pc ∧ negated_property is unsat."""
        z3 = self.z3
        if self.mode == "real":
            s = z3.Solver()
            s.set("timeout", 20000)
            s.add(negated_property)
            r = str(s.check())
            rec = {"label": label, "status": {"unsat": "ok", "sat": "fail"}.get(r, "unknown")}
            if r == "sat" and info is not None:
                rec["info"] = info
            if r == "sat":
                m = s.model()
                rec["point"] = {str(d): str(m[d]) for d in m.decls() if str(d).startswith("p_")}
            self.obligations.append(rec)
            return rec["status"] == "ok"
        r = self.eng.is_sat(negated_property)
        rec = {"label": label, "status": {"unsat": "ok", "sat": "fail"}.get(r, "unknown")}
        rate = self.eng.path_state.get("second_solver_rate", 0.0)
        if rate and r in ("sat", "unsat"):
            h = int(hashlib.sha1(repr((self.eng.path_state.get("job_salt"), label, len(self.obligations), self.eng.trace)).encode()).hexdigest()[:8], 16) / 0xFFFFFFFF
            if h < rate:
                self.eng.path_state.setdefault("xcheck", []).append(second_solver(self.eng, negated_property, r))
        if r == "sat":
            rec["witnesses"] = find_witnesses(self, [negated_property], k=3)
            if info is not None:
                rec["info"] = info
        self.obligations.append(rec)
        return rec["status"] == "ok"

    def expect(self, label, ok, info=None):
        """A concrete (non-solver) assertion on this path."""
        rec = {"label": label, "status": "ok" if ok else "fail"}
        if not ok:
            if self.mode == "sym":
                rec["witnesses"] = find_witnesses(self, [], k=2)
            if info is not None:
                rec["info"] = info
        self.obligations.append(rec)
        return ok

    def provable(self, formula):
        """True iff formula holds for all constants on this path (sym) / concretely (real)."""
        z3 = self.z3
        if self.mode == "real":
            s = z3.Solver()
            s.add(z3.Not(formula))
            return str(s.check()) == "unsat"
        return self.eng.is_sat(z3.Not(formula)) == "unsat"


def second_solver(eng, extra, z3_verdict, timeout_s=10):
    """Re-decide  pc ∧ extra  with cvc5 (binary, SMT-LIB2 dump of the z3 assertions)."""
    import tempfile

    import z3

    s2 = z3.Solver()
    for a in eng.s.assertions():
        s2.add(a)
    s2.add(extra)
    text = "(set-logic ALL)\n" + s2.to_smt2()
    fd, path = tempfile.mkstemp(suffix=".smt2", prefix="pv_x_")
    try:
        with os.fdopen(fd, "w") as fh:
            fh.write(text)
        try:
            p = subprocess.run(["cvc5", "--lang=smt2", f"--tlimit={timeout_s * 1000}", path], capture_output=True, text=True, timeout=timeout_s + 5)
            out = (p.stdout + p.stderr).strip().splitlines()
            verdict = next((l.strip() for l in out if l.strip() in ("sat", "unsat", "unknown")), "unknown")
            if any("(error" in l for l in out):
                verdict = "error"
        except Exception:
            verdict = "unknown"
    finally:
        try:
            os.unlink(path)
        except OSError:
            pass
    if verdict in ("sat", "unsat"):
        return "agree" if verdict == z3_verdict else f"DISAGREE z3={z3_verdict} cvc5={verdict}"
    return verdict


WITNESS_BOUND = 10**6


def _candidates(v, style="dyadic"):
    """Nearby values for a model value v (Fraction): exactly representable ones, or - style "decimal" - short decimals
    and thirds first (values whose doubles carry round-off into the LP solver)."""
    out = []
    if style == "decimal":
        for d in (10, 3, 1000, 7):
            c = Fraction(round(v * d), d)
            if c.denominator != 1 and c not in out:
                out.append(c)
    import math

    for d in (1, 2, 8, 256, 65536, 1 << 30, 1 << 48):
        # nearest first, then the two neighbours on the grid: a model value of -5e-9 that only has to be negative
        # becomes -1 instead of -5/2^30 (margins of order one keep replays away from the LP solver's own tolerances)
        for c in (Fraction(round(v * d), d), Fraction(math.floor(v * d), d), Fraction(math.ceil(v * d), d)):
            if c not in out:
                out.append(c)
    return out


def find_witnesses(ctx, extra, k=1, style="dyadic"):
    """Concrete values of the harness constants on this path (satisfying `extra`).

    Preference: every LP optimum is a basic solution (de-facto HiGHS contract) and the
    constants are small dyadic rationals (exactly representable as floats).  The dyadic
    values are found by greedy rounding of a model, one constant at a time, each step
    re-checked by the solver (pure linear real arithmetic).
    """
    from .oracle import ev

    z3 = ctx.z3
    eng = ctx.eng
    E = ctx.E
    out = []
    blocked = []
    names = list(ctx.consts)
    for _ in range(k):
        got = None
        eng.s.push()
        try:
            eng.s.set("timeout", 5000)
            for c in list(extra) + blocked:
                eng.s.add(c)
            # constants of moderate size first: at 1e16 float arithmetic absorbs everything else, which is outside
            # any meaningful reading of the properties (replays of passing paths are only made with bounded witnesses)
            wb = eng.path_state.get("witness_bound") or WITNESS_BOUND
            bound = [z3.And(z >= -wb, z <= wb) for z in ctx.consts.values()]
            wmin = eng.path_state.get("witness_min_abs")
            if wmin:
                # harnesses whose replays multiply and divide the constants (C09's numerals): keep magnitudes moderate so
                # that float cancellation stays far below the replay tolerances
                bound += [z3.Or(z == 0, z >= E.q(wmin), z <= -E.q(wmin)) for z in ctx.consts.values()]
            level = "basic" if eng.lp_basic_facts else "free"
            eng.s.push()
            for c in list(eng.lp_basic_facts) + bound:
                eng.s.add(c)
            r = str(eng.check())
            if r != "sat":
                eng.s.pop()
                eng.s.push()
                for c in bound:
                    eng.s.add(c)
                level = "lp-choice-dependent"
                r = str(eng.check())
            if r != "sat":
                eng.s.pop()
                eng.s.push()
                level = "unbounded-constants"
                r = str(eng.check())
            if r == "sat":
                m = eng.s.model()
                dyadic = True
                vals = {}
                for n in names:
                    z = ctx.consts[n]
                    v = ev(m, z)
                    fixed = None
                    for cand in _candidates(v, style):
                        if cand == v:
                            fixed = cand
                            break
                        eng.s.push()
                        eng.s.add(z == E.q(cand))
                        rr = str(eng.check())
                        if rr == "sat":
                            m = eng.s.model()
                            eng.s.pop()
                            fixed = cand
                            break
                        eng.s.pop()
                    if fixed is None:
                        fixed = v
                    eng.s.add(z == E.q(fixed))
                    if float(fixed) != fixed:
                        dyadic = False
                    vals[n] = str(fixed)
                # the fixed values are jointly satisfiable by construction (each step checked)
                if ctx.bools or ctx.scripted:
                    if names:
                        if str(eng.check()) == "sat":
                            m = eng.s.model()
                    vals["__bools__"] = {n: bool(z3.is_true(m.eval(z, model_completion=True))) for n, z in ctx.bools.items()}
                    vals["__decisions__"] = [bool(d) for d in eng.trace]
                got = {"level": level + ("+dyadic" if dyadic else ""), "consts": vals}
            eng.s.pop()
        finally:
            eng.s.pop()
            eng.s.set("timeout", eng.timeout_ms)
        if not got:
            break
        out.append(got)
        if not names and not ctx.bools:
            break
        blk = [ctx.consts[n] != E.q(Fraction(got["consts"][n])) for n in names]
        blk += [z != bool(got["consts"]["__bools__"][n]) for n, z in ctx.bools.items()]
        blocked.append(z3.Or(*blk))
    return out


# =====================================================================================
# canonical, JSON-able form of results
# =====================================================================================
def num_str(x):
    if isinstance(x, Fraction):
        return str(x)
    if isinstance(x, int):
        return str(x)
    return str(Fraction(float(x)))


def canon(obj, model=None):
    """Nested structure with numbers as exact 'p/q' strings; proxies need `model`."""
    from . import engine as E
    from .oracle import ev

    if isinstance(obj, E.SymReal):
        if model is None:
            raise ValueError("symbolic value without model")
        return str(ev(model, obj.z))
    if isinstance(obj, bool) or obj is None or isinstance(obj, str):
        return obj
    if isinstance(obj, (int, float, Fraction)):
        return num_str(obj)
    if isinstance(obj, dict):
        return {str(k): canon(v, model) for k, v in obj.items()}
    if isinstance(obj, (list, tuple)):
        return [canon(v, model) for v in obj]
    if hasattr(obj, "variables") and hasattr(obj, "constant"):  # PolyhedralTerm
        return {"coefs": {v.name: canon(c, model) for v, c in obj.variables.items()}, "const": canon(obj.constant, model)}
    if hasattr(obj, "terms"):
        return [canon(t, model) for t in obj.terms]
    if hasattr(obj, "inputvars") and hasattr(obj, "a") and hasattr(obj.a, "terms"):
        return {
            "in": [v.name for v in obj.inputvars],
            "out": [v.name for v in obj.outputvars],
            "a": canon(obj.a, model),
            "g": canon(obj.g, model),
        }
    if hasattr(obj, "name"):
        return obj.name
    try:
        import numpy as np

        if isinstance(obj, np.generic):
            return num_str(obj.item())
    except Exception:
        pass
    return repr(obj)


def rows_from_canon(tl):
    return [({n: Fraction(c) for n, c in t["coefs"].items()}, Fraction(t["const"])) for t in tl]


def sem_equiv_rows(A, B, ctxA=(), ctxB=()):
    """Two-way tolerant equivalence of two concrete row lists (inside the box)."""
    import z3

    from . import oracle as O

    names = O.names_of(A, B, ctxA, ctxB)
    s = z3.Solver()
    s.set("timeout", 10000)
    s.add(O.box(names))
    s.add(
        z3.Or(
            z3.And(O.holds(ctxA), O.holds(A), O.broken(list(B) + list(ctxB))),
            z3.And(O.holds(ctxB), O.holds(B), O.broken(list(A) + list(ctxA))),
        )
    )
    return str(s.check()) == "unsat"


def results_equivalent(r1, r2):
    """Semantic comparison of two canonical results (None = not comparable)."""
    try:
        if r1 is None or r2 is None:
            return r1 == r2
        if isinstance(r1, dict) and "a" in r1 and "g" in r1 and isinstance(r2, dict) and "a" in r2:
            if sorted(r1["in"]) != sorted(r2["in"]) or sorted(r1["out"]) != sorted(r2["out"]):
                return False
            a1, a2 = rows_from_canon(r1["a"]), rows_from_canon(r2["a"])
            g1, g2 = rows_from_canon(r1["g"]), rows_from_canon(r2["g"])
            return sem_equiv_rows(a1, a2) and sem_equiv_rows(g1, g2, a1, a2)
        if isinstance(r1, list) and r1 and isinstance(r1[0], dict) and "coefs" in r1[0]:
            if not (isinstance(r2, list) and (not r2 or (isinstance(r2[0], dict) and "coefs" in r2[0]))):
                return False
            return sem_equiv_rows(rows_from_canon(r1), rows_from_canon(r2))
        if isinstance(r1, list) and isinstance(r2, list) and not r1 and not r2:
            return True
        if isinstance(r1, list) and isinstance(r2, list) and len(r1) == len(r2) and all(isinstance(v, str) for v in r1 + r2):
            # flat lists of numbers (C18's corner coordinates): elementwise, tolerant
            try:
                return all(abs(Fraction(u) - Fraction(v)) <= Fraction(1, 10**6) * (1 + abs(Fraction(u))) for u, v in zip(r1, r2))
            except Exception:
                return r1 == r2
        if isinstance(r1, dict) and isinstance(r2, dict) and "cmp" in r1:
            # harness-defined comparable payload
            return r1["cmp"] == r2.get("cmp")
        if isinstance(r1, str) and isinstance(r2, str):
            try:
                f1, f2 = Fraction(r1), Fraction(r2)
                return abs(f1 - f2) <= Fraction(1, 10**6) * (1 + abs(f1))
            except Exception:
                return r1 == r2
        return r1 == r2
    except Exception:
        return None


# =====================================================================================
# symbolic worker
# =====================================================================================
def _load(prop):
    return importlib.import_module(f"pv.props.{prop}")


def classify_exception(e):
    return type(e).__name__


def sym_worker(args):
    prop, job, opts = args
    t0 = time.time()
    try:
        from . import engine as E
        from . import shims

        mod = _load(prop)
        setup = dict(getattr(mod, "SETUP", {}))
        setup.update(job.get("setup", {}))
        shims.install(stub_str=setup.get("stub_str", True), validate_lp=opts.get("validate_lp", False))
        if setup.get("plots"):
            from . import plots_shim

            plots_shim.install()
        eng = E.Engine(mode="sym", timeout_ms=opts.get("query_timeout_ms", 20000), max_paths=opts.get("max_paths", 5000))
        eng.format_hook = shims.token_format
        deadline = t0 + opts.get("job_budget_s", 120)
        traced = {}

        def harness(eng):
            if time.time() > deadline:
                eng.stats.cap_hit = True
                eng.work.clear()
                raise E.PathAbort("job time budget")
            shims.NUMERALS.clear()
            shims.FOURG.clear()
            eng.path_state["second_solver_rate"] = opts.get("second_solver_rate", 0.0)
            eng.path_state["witness_bound"] = opts.get("witness_bound")
            eng.path_state["witness_min_abs"] = opts.get("witness_min_abs")
            eng.path_state["job_salt"] = repr(job)
            ctx = Ctx(eng)
            prof = None
            if opts.get("trace_functions") and eng.stats.paths < 3:
                prof = _FuncTrace(traced)
                sys.setprofile(prof)
            try:
                out = mod.run(ctx, job)
            finally:
                if prof:
                    sys.setprofile(None)
            out = out or {}
            rec = {
                "cls": out.get("cls", "OK"),
                "tags": list(ctx.tags) + list(out.get("tags", [])),
                "obligations": ctx.obligations,
                "lp_point_read": eng.lp_point_read,
                "lp": [c["status"] for c in eng.lp_calls],
                "nonlinear": eng.nonlinear,
                "proj_validated": eng.path_state.get("proj_validated", []),
                "xcheck": eng.path_state.get("xcheck", []),
            }
            # witness of the path itself (for differential replay), with the result evaluated on it
            want = opts.get("path_witness", True)
            rate = opts.get("witness_rate", 1.0)
            if want and rate < 1.0 and eng.stats.paths > 0:
                hsh = int(hashlib.sha1(repr((job, eng.trace)).encode()).hexdigest()[:8], 16) / 0xFFFFFFFF
                want = hsh < rate or any(o["status"] != "ok" for o in ctx.obligations)
            if want and (ctx.consts or ctx.bools or ctx.scripted):
                style = "dyadic"
                if opts.get("decimal_witness_rate"):
                    hs = int(hashlib.sha1(repr(("style", job, eng.trace)).encode()).hexdigest()[:8], 16) / 0xFFFFFFFF
                    style = "decimal" if hs < opts["decimal_witness_rate"] else "dyadic"
                ws = find_witnesses(ctx, [], k=1, style=style)
                if ws:
                    w = ws[0]
                    import z3

                    def _fix():
                        for n, z in ctx.consts.items():
                            eng.s.add(z == E.q(Fraction(w["consts"][n])))
                        for n, z in ctx.bools.items():
                            eng.s.add(z == bool(w["consts"]["__bools__"][n]))

                    eng.s.push()
                    _fix()
                    for f in eng.lp_basic_facts:
                        eng.s.add(f)
                    r = eng.check()
                    if str(r) != "sat":
                        eng.s.pop()
                        eng.s.push()
                        _fix()
                        r = eng.check()
                    if str(r) == "sat":
                        m = eng.s.model()
                        try:
                            w["expected"] = canon(out.get("res"), m)
                        except Exception as e:  # noqa
                            w["expected"] = {"uncanon": repr(e)}
                    eng.s.pop()
                    rec["witness"] = w
            elif want:
                try:
                    rec["witness"] = {"level": "noconst", "consts": {}, "expected": canon(out.get("res"), None)}
                except Exception:
                    rec["witness"] = {"level": "noconst", "consts": {}}
            return rec

        results = eng.explore(harness)
        paths = []
        for trace, rec in results:
            rec = dict(rec)
            rec["depth"] = len(trace)
            paths.append(rec)
        return {
            "job": job,
            "paths": paths,
            "stats": eng.stats.as_dict(),
            "wall": time.time() - t0,
            "functions": sorted(traced),
            "error": None,
        }
    except BaseException as e:  # harness/engine fault: never a pass
        return {
            "job": job,
            "paths": [],
            "stats": {},
            "wall": time.time() - t0,
            "functions": [],
            "error": "".join(traceback.format_exception(type(e), e, e.__traceback__))[-3000:],
        }


class _FuncTrace:
    def __init__(self, store):
        self.store = store

    def __call__(self, frame, event, arg):
        if event == "call":
            fn = frame.f_code.co_filename
            if "/pacti/" in fn:
                mod = fn.split("/pacti/", 1)[1].rsplit(".", 1)[0].replace("/", ".")
                self.store[f"pacti.{mod}:{frame.f_code.co_qualname if hasattr(frame.f_code, 'co_qualname') else frame.f_code.co_name}"] = 1


# =====================================================================================
# replay (fresh interpreter, no shims)
# =====================================================================================
def replay_one(prop, job, witness):
    """Run the harness in real mode on concrete constants.  Must not touch the shims."""
    from . import engine as E
    from . import shims

    shims.import_pacti()
    mod = _load(prop)
    eng = E.Engine(mode="real")
    ctx = Ctx(eng, witness=witness["consts"])

    def h(eng):
        return mod.run(ctx, job)

    try:
        out = eng.run_real(h) or {}
    except E.SymLeak as e:
        return {"cls": "HARNESS-LEAK:" + str(e), "obligations": [], "res": None, "tags": []}
    res = None
    try:
        res = canon(out.get("res"), None)
    except Exception as e:  # noqa
        res = {"uncanon": repr(e)}
    rec = {"cls": out.get("cls", "OK"), "obligations": ctx.obligations, "res": res, "tags": list(ctx.tags) + list(out.get("tags", []))}
    failed = [o for o in ctx.obligations if o["status"] == "fail"]
    if failed and hasattr(mod, "culprit"):
        try:
            rec["culprit"] = mod.culprit(job, witness["consts"], failed[0]["label"], rec)
        except Exception as e:  # noqa
            rec["culprit"] = "culprit-error:" + type(e).__name__
    elif failed:
        rec["culprit"] = failed[0].get("info") or ""
    if "expected" in witness:
        rec["same_class"] = witness.get("expected_cls") == rec["cls"]
        rec["equiv"] = results_equivalent(witness["expected"], res)
        rec["identical"] = witness["expected"] == res
    return rec


def replay_main():
    """stdin: JSON list of {prop, job, witness}; stdout: JSON list of results."""
    items = json.load(sys.stdin)
    out = []
    for it in items:
        try:
            out.append(replay_one(it["prop"], it["job"], it["witness"]))
        except BaseException as e:
            out.append({"cls": "REPLAY-ERROR", "error": "".join(traceback.format_exception(type(e), e, e.__traceback__))[-2000:], "obligations": []})
    json.dump(out, sys.stdout)


def run_replays(items, nproc=16, chunk=40):
    """Replay items in fresh interpreters (batched)."""
    if not items:
        return []
    py = sys.executable
    chunks = [items[i : i + chunk] for i in range(0, len(items), chunk)]
    env = dict(os.environ)
    env["PYTHONPATH"] = VERIF + os.pathsep + env.get("PYTHONPATH", "")
    env["PV_REAL_ONLY"] = "1"

    def run_chunk(ch):
        p = subprocess.run(
            [py, "-c", "from pv.driver import replay_main; replay_main()"],
            input=json.dumps(ch),
            capture_output=True,
            text=True,
            env=env,
            cwd=VERIF,
            timeout=1800,
        )
        if p.returncode != 0:
            return [{"cls": "REPLAY-ERROR", "error": p.stderr[-2000:], "obligations": []} for _ in ch]
        return json.loads(p.stdout)

    results = []
    with cf.ThreadPoolExecutor(max_workers=nproc) as ex:
        for r in ex.map(run_chunk, chunks):
            results.extend(r)
    return results


# =====================================================================================
# known findings
# =====================================================================================
def load_findings():
    p = os.path.join(VERIF, "known_findings.json")
    if not os.path.exists(p):
        return []
    return json.load(open(p))["findings"]


def match_finding(findings, prop, sig):
    for f in findings:
        if f.get("status") != "open" or f["property"] != prop:
            continue
        fs = f["signature"]
        if all(sig.get(k) == v for k, v in fs.items()):
            return f
    return None


# =====================================================================================
# main check
# =====================================================================================
def _stub_list(mod):
    """Every environment stub is part of the claim: listed with the harness's own assumptions."""
    from . import shims

    if getattr(mod, "PROP", "") in ("C05", "C06"):
        out = ["stub: abstract Term / TermList domain with nondeterministic primitives within their documented contracts (pv/abstract.py)"]
        if getattr(mod, "PROP", "") == "C05":
            return out
    else:
        out = []
    out += ["stub: " + s for s in shims.STUBS_DOC]
    if getattr(mod, "SETUP", {}).get("plots"):
        from . import plots_shim

        out += ["stub: " + s for s in plots_shim.STUBS_DOC]
    return out


def run_check(prop, tier, seed=None):
    t0 = time.time()
    seed = int(os.environ.get("VERIF_SEED", "0") if seed is None else seed)
    mod = _load(prop)
    opts = dict(getattr(mod, "OPTS", {}).get(tier, {}))
    opts.setdefault("max_paths", 5000 if tier == "quick" else 50000)
    opts.setdefault("job_budget_s", 120 if tier == "quick" else 900)
    opts.setdefault("trace_functions", True)
    opts.setdefault("validate_lp", tier == "thorough")
    opts.setdefault("witness_rate", 0.3 if tier == "quick" else 1.0)
    opts.setdefault("second_solver_rate", 0.01 if tier == "quick" else 0.03)
    nproc = int(os.environ.get("VERIF_NPROC", "16"))
    jobs = mod.jobs(tier, seed)
    budget = opts.get("tier_budget_s", 170 if tier == "quick" else 1500)
    print(f"[{prop}] tier={tier} seed={seed} jobs={len(jobs)} budget={budget}s", flush=True)

    # ---- phase 1: symbolic exploration ---------------------------------------------
    recs = []
    not_run = 0
    ctxmp = mp.get_context("spawn")
    with cf.ProcessPoolExecutor(max_workers=nproc, mp_context=ctxmp) as ex:
        futs = [ex.submit(sym_worker, (prop, j, opts)) for j in jobs]
        for f in futs:
            remaining = budget - (time.time() - t0)
            try:
                if remaining <= -budget and not f.done():
                    raise cf.TimeoutError()  # twice the budget used up: do not wait for what has not finished
                recs.append(f.result(timeout=max(1, remaining)))
            except cf.TimeoutError:
                f.cancel()
                not_run += 1
            except Exception as e:  # worker died
                recs.append({"job": None, "paths": [], "stats": {}, "wall": 0, "functions": [], "error": repr(e)})
        if not_run:
            for p in list(getattr(ex, "_processes", {}).values()):
                try:
                    p.terminate()
                except Exception:
                    pass
    t_sym = time.time() - t0

    # ---- phase 2: collect replays ----------------------------------------------------
    rng = random.Random(seed)
    replay_items = []  # (kind, rec_idx, path_idx, obl_idx, wit_idx)
    meta = []
    engine_errors = [r["error"] for r in recs if r.get("error")]
    sample_rate = opts.get("replay_sample", 1.0)
    max_pass_replays = opts.get("max_pass_replays", 400 if tier == "quick" else 6000)
    pass_candidates = []
    for ri, r in enumerate(recs):
        for pi, p in enumerate(r["paths"]):
            if "abort" in p:
                continue
            for oi, o in enumerate(p["obligations"]):
                if o["status"] == "fail":
                    for wi, w in enumerate(o.get("witnesses", [])):
                        replay_items.append({"prop": prop, "job": r["job"], "witness": {"consts": w["consts"]}})
                        meta.append(("fail", ri, pi, oi, wi))
            if "witness" in p and all(o["status"] == "ok" for o in p["obligations"]) and not str(p["witness"].get("level", "")).startswith("unbounded"):
                pass_candidates.append((ri, pi))
    # at least one passing path per job, then a seeded sample
    chosen = {}
    for ri, pi in pass_candidates:
        chosen.setdefault(ri, (ri, pi))
    rest = [c for c in pass_candidates if chosen.get(c[0]) != c]
    rng.shuffle(rest)
    picked = list(chosen.values()) + rest[: int(len(rest) * sample_rate)]
    picked = picked[:max_pass_replays]
    for ri, pi in picked:
        p = recs[ri]["paths"][pi]
        w = dict(p["witness"])
        w["expected_cls"] = p["cls"]
        replay_items.append({"prop": prop, "job": recs[ri]["job"], "witness": w})
        meta.append(("pass", ri, pi, None, None))
    t1 = time.time()
    rres = run_replays(replay_items, nproc=nproc)
    t_replay = time.time() - t1

    # ---- phase 3: verdicts --------------------------------------------------------------
    findings = load_findings()
    violations = []  # (sig, replay path)
    known_hits = {}
    inconclusive = []
    lp_choice_inconclusive = []
    divergences = []
    validated = 0
    identical = 0
    replay_errors = []
    reproduced_paths = set()
    by_fail = {}
    for m, rr in zip(meta, rres):
        if rr.get("cls") == "REPLAY-ERROR" or str(rr.get("cls", "")).startswith("HARNESS-LEAK"):
            replay_errors.append(rr.get("error", rr.get("cls")))
            continue
        kind, ri, pi, oi, wi = m
        job = recs[ri]["job"]
        p = recs[ri]["paths"][pi]
        real_failed = [o for o in rr["obligations"] if o["status"] == "fail"]
        if kind == "pass":
            validated += 1
            if rr.get("identical"):
                identical += 1
            if real_failed:
                # float-level violation on a solver-constructed witness
                sig = {"kind": job.get("kind", ""), "label": real_failed[0]["label"], "culprit": "real-run-only:" + str(rr.get("culprit", ""))}
                _record_violation(prop, sig, job, p["witness"], rr, findings, violations, known_hits)
            elif not rr.get("same_class") or rr.get("equiv") is False:
                divergences.append({"job": job, "consts": p["witness"]["consts"], "model_cls": p["cls"], "real_cls": rr["cls"], "equiv": rr.get("equiv")})
        else:
            by_fail.setdefault((ri, pi, oi), []).append((wi, rr, real_failed))
    for (ri, pi, oi), lst in by_fail.items():
        job = recs[ri]["job"]
        p = recs[ri]["paths"][pi]
        o = p["obligations"][oi]
        hit = None
        for wi, rr, real_failed in sorted(lst, key=lambda x: x[0]):
            same = [x for x in real_failed if x["label"] == o["label"]]
            if same or real_failed:
                hit = (wi, rr, (same or real_failed)[0])
                break
        if hit:
            wi, rr, ro = hit
            sig = {"kind": job.get("kind", ""), "label": ro["label"], "culprit": str(rr.get("culprit", ""))}
            _record_violation(prop, sig, job, o["witnesses"][wi], rr, findings, violations, known_hits)
        else:
            entry = {"job": job, "label": o["label"], "witnesses": o.get("witnesses", []), "lp_point_read": p.get("lp_point_read")}
            if p.get("lp_point_read"):
                lp_choice_inconclusive.append(entry)
            else:
                inconclusive.append(entry)

    # ---- aggregate ----------------------------------------------------------------------
    n_paths = sum(len(r["paths"]) for r in recs)
    outside = sum(1 for r in recs for p in r["paths"] if "abort" in p and p["abort"].startswith("outside"))
    aborted = sum(1 for r in recs for p in r["paths"] if "abort" in p and not p["abort"].startswith("outside"))
    abort_reasons = {}
    for r in recs:
        for p in r["paths"]:
            if "abort" in p:
                abort_reasons[p["abort"]] = abort_reasons.get(p["abort"], 0) + 1
    n_obl = sum(len(p.get("obligations", [])) for r in recs for p in r["paths"])
    n_ok = sum(1 for r in recs for p in r["paths"] for o in p.get("obligations", []) if o["status"] == "ok")
    n_unknown = sum(1 for r in recs for p in r["paths"] for o in p.get("obligations", []) if o["status"] == "unknown")
    census = {}
    tags = {}
    for r in recs:
        for p in r["paths"]:
            if "abort" in p:
                continue
            census[p["cls"]] = census.get(p["cls"], 0) + 1
            for t in p.get("tags", []):
                tags[t] = tags.get(t, 0) + 1
    functions = sorted({f for r in recs for f in r.get("functions", [])})
    stats = {k: sum(r["stats"].get(k, 0) for r in recs if r["stats"]) for k in ("queries", "solver_time", "decisions", "paths")}
    cap_hits = sum(1 for r in recs if r["stats"] and r["stats"].get("cap_hit"))
    proj_val = [v for r in recs for p in r["paths"] for v in p.get("proj_validated", [])]
    xc = [v for r in recs for p in r["paths"] for v in p.get("xcheck", [])]

    # reachability (vacuity guard)
    missing = []
    for need in getattr(mod, "REACH", {}).get(tier, getattr(mod, "REACH", {}).get("quick", [])):
        if need not in census and need not in tags:
            missing.append(need)

    samples = []
    for r in recs[:]:
        for p in r["paths"]:
            if "abort" in p:
                continue
            samples.append({"job": r["job"], "outcome": p["cls"], "tags": p.get("tags", [])[:6], "obligations": [(o["label"], o["status"]) for o in p["obligations"]][:6], "witness": (p.get("witness") or {}).get("consts")})
            break
        if len(samples) >= 5:
            break

    wall = time.time() - t0
    exit_code = EXIT_OK
    problems = []
    if violations:
        exit_code = EXIT_VIOLATION
    hard_incon = len(inconclusive) + n_unknown
    if engine_errors:
        problems.append(f"{len(engine_errors)} job(s) crashed in the engine/harness")
    if replay_errors:
        problems.append(f"{len(replay_errors)} replay(s) crashed")
    if inconclusive:
        problems.append(f"{len(inconclusive)} counterexample(s) did not reproduce and do not depend on the LP point choice")
    if missing:
        problems.append("reachability table not met: " + ", ".join(missing))
    if n_paths == 0:
        problems.append("no path explored")
    if n_unknown > max(2, 0.02 * max(1, n_obl)):
        problems.append(f"{n_unknown} obligations undecided by the solver (unknown)")
    if aborted > max(2, 0.02 * max(1, n_paths)):
        problems.append(f"{aborted} aborted paths ({abort_reasons})")
    if any(str(v).startswith("DISAGREE") for v in xc):
        problems.append("second solver disagrees: " + next(v for v in xc if str(v).startswith("DISAGREE")))
    if any(v is False for v in proj_val):
        problems.append("an LP projection failed validation")
    if problems and exit_code == EXIT_OK:
        exit_code = EXIT_INCONCLUSIVE

    evidence = {
        "property_id": prop,
        "tier": tier,
        "seed": seed,
        "level": "model_checking",
        "coverage": {
            "states": max(n_paths - aborted - outside, 0),
            "transitions": int(stats.get("decisions", 0)) + n_obl,
            "traces_validated_against_impl": validated,
            "samples": samples or [{"note": "no path"}],
            "rule": getattr(mod, "RULE", ""),
            "jobs": len(jobs),
            "jobs_not_run_in_budget": not_run,
            "kinds": _count(recs, "kind"),
            "obligations": n_obl,
            "discharged": n_ok,
            "obligation_unknown": n_unknown,
            "queries": int(stats.get("queries", 0)),
            "solver_time_s": round(stats.get("solver_time", 0.0), 2),
            "branch_decisions": int(stats.get("decisions", 0)),
            "aborted_paths": aborted,
            "paths_outside_the_claim": outside,
            "abort_reasons": abort_reasons,
            "path_cap_hits": cap_hits,
            "outcome_census": census,
            "tags": tags,
            "functions_encoded": functions,
            "bounds": getattr(mod, "BOUNDS", {}).get(tier, getattr(mod, "BOUNDS", {})),
            "replays_identical_results": identical,
            "divergences": len(divergences),
            "divergence_samples": divergences[:5],
            "inconclusive_lp_choice_paths": len(lp_choice_inconclusive),
            "inconclusive_other": len(inconclusive),
            "inconclusive_samples": (lp_choice_inconclusive + inconclusive)[:5],
            "second_solver": {"solver": "cvc5 (binary)", "queries": len(xc), "agree": sum(1 for v in xc if v == "agree"), "undecided_or_error": sum(1 for v in xc if v in ("unknown", "error"))},
            "lp_projections_validated": sum(1 for v in proj_val if v),
            "lp_projections_unknown": sum(1 for v in proj_val if v is None),
            "known_findings_hit": {k: v["count"] for k, v in known_hits.items()},
            "phase_wall_s": {"symbolic": round(t_sym, 1), "replay": round(t_replay, 1)},
            "problems": problems,
            "engine_errors": engine_errors[:3],
            "replay_errors": replay_errors[:3],
            "exhaustive": False,
        },
        "assumptions": list(getattr(mod, "ASSUMPTIONS", [])) + _stub_list(mod),
        "wall_s": round(wall, 2),
        "violations": len(violations),
    }
    os.makedirs(os.path.join(OUT, "evidence"), exist_ok=True)
    with open(os.path.join(OUT, "evidence", f"{prop}.json"), "w") as f:
        json.dump(evidence, f, indent=1, default=str)

    for k, v in known_hits.items():
        print(f"KNOWN-FINDING: property={prop} {v['finding']['id']}: {v['finding']['note']} (hit {v['count']}x)")
    for sig, path in violations:
        print(f"VIOLATION property={prop} replay={path}")
    print(
        f"[{prop}] paths={n_paths} obligations={n_ok}/{n_obl} replays={validated} identical={identical} divergences={len(divergences)} "
        f"lp-choice-inconclusive={len(lp_choice_inconclusive)} violations={len(violations)} known={sum(v['count'] for v in known_hits.values())} wall={wall:.1f}s"
    )
    for pr in problems:
        print(f"INCONCLUSIVE {prop}: {pr}")
    if engine_errors:
        print(engine_errors[0])
    if replay_errors:
        print(replay_errors[0])
    return exit_code


def _count(recs, key):
    c = {}
    for r in recs:
        if r.get("job"):
            k = r["job"].get(key, "")
            c[k] = c.get(k, 0) + 1
    return c


def _record_violation(prop, sig, job, witness, rr, findings, violations, known_hits):
    f = match_finding(findings, prop, sig)
    if f is not None:
        e = known_hits.setdefault(f["id"], {"finding": f, "count": 0})
        e["count"] += 1
        return
    # one replay file per distinct signature+job
    digest = hashlib.sha1(json.dumps([sig, job, witness.get("consts")], sort_keys=True, default=str).encode()).hexdigest()[:12]
    if any(s == sig for s, _ in violations) and len(violations) > 20:
        return
    path = os.path.join(OUT, "replays", f"{prop}-{digest}.json")
    os.makedirs(os.path.dirname(path), exist_ok=True)
    with open(path, "w") as fh:
        json.dump({"prop": prop, "job": job, "witness": {"consts": witness.get("consts")}, "signature": sig, "real_run": {k: rr.get(k) for k in ("cls", "obligations", "res", "culprit")}}, fh, indent=1, default=str)
    violations.append((sig, path))


def run_replay_file(path):
    d = json.load(open(path))
    rr = run_replays([{"prop": d["prop"], "job": d["job"], "witness": d["witness"]}], nproc=1)[0]
    print(json.dumps(rr, indent=1, default=str))
    failed = [o for o in rr.get("obligations", []) if o["status"] == "fail"]
    if failed:
        print(f"VIOLATION property={d['prop']} replay={path}")
        return EXIT_VIOLATION
    return EXIT_OK
