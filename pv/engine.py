"""symx: symbolic execution of real Python code on proxy scalars (z3 Reals).

The code under test runs unmodified.  Every constant handed out by the harness is a
`SymReal` wrapping a z3 term; arithmetic builds terms, comparisons build `SymBool`s
and `bool(SymBool)` asks the engine which way to go.  `Engine.explore` re-executes the
harness once per feasible decision sequence (depth-first, decision-tree re-execution),
so the set of paths of one harness partitions the whole space of the symbolic
constants.

The same harness can also be run in *real* mode (no proxies, plain floats, no shims):
`Engine(mode="real")` then only serves as the place where obligations are evaluated
with exact rational arithmetic.  That is how counterexamples and path witnesses are
replayed against the unshimmed implementation.
"""
from __future__ import annotations

import time
from fractions import Fraction

import z3

ENGINE = None  # the engine of the harness currently running in this process


class SymLeak(BaseException):
    """A symbolic value reached code that needs a concrete machine value."""


class PathAbort(BaseException):
    """The current path cannot be completed (solver unknown, cap, infeasible)."""


def q(x) -> z3.ArithRef:
    """Exact z3 numeral of a Python number (floats denote the rationals they are)."""
    if isinstance(x, bool):
        raise SymLeak("bool used as a number")
    if isinstance(x, int):
        return z3.RealVal(x)
    if isinstance(x, Fraction):
        return z3.RealVal(str(x))
    f = float(x)
    if f != f or f in (float("inf"), float("-inf")):
        raise SymLeak("non-finite number")
    return z3.RealVal(str(Fraction(f)))


def toz(x):
    """z3 term of a proxy or number; None if x is not numeric."""
    if isinstance(x, SymReal):
        return x.z
    if isinstance(x, (bool, str, bytes)) or x is None:
        return None
    if isinstance(x, (int, Fraction)):
        return q(x)
    try:
        f = float(x)
    except SymLeak:
        raise
    except Exception:
        return None
    return q(f)


def frac(x) -> Fraction:
    if isinstance(x, Fraction):
        return x
    if isinstance(x, int):
        return Fraction(x)
    return Fraction(float(x))


class SymBool:
    __slots__ = ("z",)

    def __init__(self, z):
        self.z = z

    def __bool__(self):
        return ENGINE.branch(self.z)

    def _o(self, o):
        if isinstance(o, SymBool):
            return o.z
        return z3.BoolVal(bool(o))

    def __and__(self, o):
        return SymBool(z3.And(self.z, self._o(o)))

    __rand__ = __and__

    def __or__(self, o):
        return SymBool(z3.Or(self.z, self._o(o)))

    __ror__ = __or__

    def __invert__(self):
        return SymBool(z3.Not(self.z))

    def __deepcopy__(self, memo):
        return self

    def __copy__(self):
        return self

    def __repr__(self):
        return "<symbool>"


_SYMPY_HOOK = None  # set by sympy_shim: turns (SymReal, sympy expr, op) into a SymLin


class SymReal:
    __slots__ = ("z",)
    __array_priority__ = 1000

    def __init__(self, z):
        self.z = z

    # ---- arithmetic -------------------------------------------------------
    def _bin(self, o, f, name=""):
        if _SYMPY_HOOK is not None and not isinstance(o, (int, float, SymReal)):
            r = _SYMPY_HOOK(self, o, name)
            if r is not None:
                return r
        oz = toz(o)
        if oz is None:
            return NotImplemented
        return SymReal(z3.simplify(f(self.z, oz)))

    def __add__(self, o):
        return self._bin(o, lambda a, b: a + b, "add")

    __radd__ = __add__

    def __sub__(self, o):
        return self._bin(o, lambda a, b: a - b, "sub")

    def __rsub__(self, o):
        return self._bin(o, lambda a, b: b - a, "rsub")

    def __mul__(self, o):
        if isinstance(o, SymReal):
            ENGINE.nonlinear += 1
        return self._bin(o, lambda a, b: a * b, "mul")

    __rmul__ = __mul__

    def __truediv__(self, o):
        if isinstance(o, SymReal):
            ENGINE.nonlinear += 1
            if ENGINE.branch(o.z == 0):
                raise ZeroDivisionError("float division by zero")
        else:
            oz = toz(o)
            if oz is None:
                return NotImplemented
            if o == 0:
                raise ZeroDivisionError("float division by zero")
        return self._bin(o, lambda a, b: a / b, "div")

    def __rtruediv__(self, o):
        if toz(o) is None:
            return NotImplemented
        ENGINE.nonlinear += 1
        if ENGINE.branch(self.z == 0):
            raise ZeroDivisionError("float division by zero")
        return self._bin(o, lambda a, b: b / a, "rdiv")

    def __neg__(self):
        return SymReal(z3.simplify(-self.z))

    def __pos__(self):
        return self

    def __abs__(self):
        return SymReal(z3.If(self.z >= 0, self.z, -self.z))

    # ---- comparisons ------------------------------------------------------
    def _cmp(self, o, f):
        oz = toz(o)
        if oz is None:
            return NotImplemented
        return SymBool(z3.simplify(f(self.z, oz)))

    def __le__(self, o):
        return self._cmp(o, lambda a, b: a <= b)

    def __lt__(self, o):
        return self._cmp(o, lambda a, b: a < b)

    def __ge__(self, o):
        return self._cmp(o, lambda a, b: a >= b)

    def __gt__(self, o):
        return self._cmp(o, lambda a, b: a > b)

    def __eq__(self, o):
        r = self._cmp(o, lambda a, b: a == b)
        return False if r is NotImplemented else r

    def __ne__(self, o):
        r = self._cmp(o, lambda a, b: a != b)
        return True if r is NotImplemented else r

    def __hash__(self):
        # equal values get the same canonical token on a path, hence the same hash
        return hash(ENGINE.format_symbolic(self, ""))

    # ---- leaks --------------------------------------------------------------
    def __float__(self):
        raise SymLeak("float() on a symbolic value")

    def __int__(self):
        raise SymLeak("int() on a symbolic value")

    def __index__(self):
        raise SymLeak("index() on a symbolic value")

    def __bool__(self):
        return ENGINE.branch(self.z != 0)

    # ---- formatting: canonical tokens (see shims.install_tokens) -------------
    def __format__(self, spec):
        return ENGINE.format_symbolic(self, spec)

    def __str__(self):
        return ENGINE.format_symbolic(self, "")

    __repr__ = __str__

    def __deepcopy__(self, memo):
        return self

    def __copy__(self):
        return self


class Stats:
    def __init__(self):
        self.queries = 0
        self.solver_time = 0.0
        self.paths = 0
        self.decisions = 0
        self.aborted = 0
        self.cap_hit = False

    def as_dict(self):
        return dict(self.__dict__)


class Engine:
    """One engine explores one harness (one shape/config)."""

    def __init__(self, mode="sym", timeout_ms=20000, max_paths=5000):
        self.mode = mode
        self.timeout_ms = timeout_ms
        self.max_paths = max_paths
        self.stats = Stats()
        self.s = z3.Solver()
        self.s.set("timeout", timeout_ms)
        self.nonlinear = 0
        self.fresh_n = 0
        self.model = None
        self.trace = []
        self.prefix = []
        self.work = []
        self.path_state = {}
        self.format_hook = None
        self.script = None  # real mode: recorded branch decisions to follow
        self.script_pos = 0

    # ---- per path state ------------------------------------------------------
    def _reset_path(self):
        self.s.reset()
        self.s.set("timeout", self.timeout_ms)
        self.fresh_n = 0
        self.nonlinear = 0
        self.trace = []
        self.path_state = {}
        self.lp_calls = []  # records made by the LP stub on this path
        self.lp_point_read = False
        self.lp_basic_facts = []

    # ---- solver access ---------------------------------------------------------
    def check(self, *extra):
        t = time.time()
        r = self.s.check(*extra)
        self.stats.solver_time += time.time() - t
        self.stats.queries += 1
        return r

    def is_sat(self, *extra):
        """sat/unsat of pc ∧ extra as 'sat' | 'unsat' | 'unknown'."""
        return str(self.check(*extra))

    def fresh_real(self, name="v"):
        self.fresh_n += 1
        return SymReal(z3.Real(f"{name}!{self.fresh_n}"))

    def fresh_bool(self, name="c"):
        self.fresh_n += 1
        return z3.Bool(f"{name}!{self.fresh_n}")

    def fresh_int(self, name="i"):
        self.fresh_n += 1
        return z3.Int(f"{name}!{self.fresh_n}")

    def choose(self, name="choice"):
        """A nondeterministic Boolean decided by forking."""
        return self.branch(self.fresh_bool(name))

    def assume(self, zexpr):
        if self.mode == "real":
            return  # replays take their truth values from a model that satisfied the assumptions
        self.s.add(zexpr)
        self.model = None

    def _ensure_model(self):
        if self.model is None:
            r = self.check()
            if r == z3.sat:
                self.model = self.s.model()
            elif r == z3.unsat:
                raise PathAbort("vacuous: path condition unsatisfiable after assumption")
            else:
                raise PathAbort("unknown")

    def branch(self, cond):
        if self.mode == "real":
            # replay of a recorded decision sequence (abstract-domain harnesses)
            if self.script is None:
                raise SymLeak("symbolic branch in real mode")
            cond = z3.simplify(cond)
            if z3.is_true(cond):
                return True
            if z3.is_false(cond):
                return False
            if self.script_pos >= len(self.script):
                raise SymLeak("replay script exhausted")
            d = self.script[self.script_pos]
            self.script_pos += 1
            return bool(d)
        cond = z3.simplify(cond)
        if z3.is_true(cond):
            return True
        if z3.is_false(cond):
            return False
        i = len(self.trace)
        if i < len(self.prefix):
            d = self.prefix[i]
            self.trace.append(d)
            self.s.add(cond if d else z3.Not(cond))
            if i + 1 == len(self.prefix):
                self.model = self.prefix_model
            return d
        self._ensure_model()
        self.stats.decisions += 1
        mv = self.model.eval(cond, model_completion=True)
        if z3.is_true(mv):
            d = True
        elif z3.is_false(mv):
            d = False
        else:  # could not evaluate: fall back on two queries
            rt = self.check(cond)
            if rt == z3.unknown:
                raise PathAbort("unknown")
            d = rt == z3.sat
            if d:
                self.model = self.s.model()
        other = z3.Not(cond) if d else cond
        ro = self.check(other)
        if ro == z3.unknown:
            raise PathAbort("unknown")
        if ro == z3.sat:
            self.work.append((self.trace + [not d], self.s.model()))
        self.trace.append(d)
        self.s.add(cond if d else z3.Not(cond))
        return d

    # ---- formatting of symbolic numbers ------------------------------------------
    def format_symbolic(self, v, spec):
        if self.format_hook is None:
            raise SymLeak("formatting a symbolic number without a token model")
        return self.format_hook(self, v, spec)

    # ---- exploration -------------------------------------------------------------
    def explore(self, fn):
        """Run fn(engine) on every feasible path.  Returns list of (trace, result)."""
        global ENGINE
        prev = ENGINE
        ENGINE = self
        self.work = [([], None)]
        results = []
        try:
            while self.work:
                if self.stats.paths >= self.max_paths:
                    self.stats.cap_hit = True
                    break
                self.prefix, self.prefix_model = self.work.pop()
                self._reset_path()
                self.model = None
                if not self.prefix:
                    self.model = None
                try:
                    r = fn(self)
                    results.append((list(self.trace), r))
                except PathAbort as e:
                    self.stats.aborted += 1
                    results.append((list(self.trace), {"abort": str(e)}))
                except SymLeak as e:
                    self.stats.aborted += 1
                    results.append((list(self.trace), {"abort": "leak: " + str(e)}))
                self.stats.paths += 1
        finally:
            ENGINE = prev
        return results

    def run_real(self, fn):
        """Run fn(engine) once with no symbolic values."""
        global ENGINE
        prev = ENGINE
        ENGINE = self
        try:
            self._reset_path()
            return fn(self)
        finally:
            ENGINE = prev


def current() -> Engine:
    return ENGINE
