"""Exact parametric LP: the stub that stands in for scipy.optimize.linprog.

For `min c.x  s.t.  A x <= b`, x free, with A and c concrete and b symbolic, the set
of b for which the LP is feasible and its optimal value are obtained by eliminating x
from {A x <= b, c.x <= t} by Fourier-Motzkin with exact rationals.  Since A is
concrete all multipliers are numbers, so every derived row stays linear in b.

    feasibility rows :  0 <= r_j(b)
    value rows       :  t >= l_k(b)        ->   fun = max_k l_k(b)

Rows are tuples (coefs over x, tcoef, {b index: multiplier}, const) meaning
    coefs.x + tcoef*t <= sum_i mult_i*b_i + const
"""
from __future__ import annotations

import itertools
from fractions import Fraction

import z3

from . import engine as E

FM_CAP = 4000


class Projection:
    def __init__(self, feas, lowers, n, m):
        self.feas = feas  # list of ({i: mult}, const): 0 <= sum mult_i b_i + const
        self.lowers = lowers  # list of ({i: mult}, const): t >= sum mult_i b_i + const
        self.n = n
        self.m = m


def _norm_key(bv, cst, tco):
    items = tuple(sorted((k, v) for k, v in bv.items() if v != 0))
    return (items, cst, tco)


def fm_project(A, c):
    """A: n x m list of Fractions, c: list of m Fractions (or None for feasibility only)."""
    n = len(A)
    m = len(A[0]) if n else (len(c) if c is not None else 0)
    rows = []
    for i in range(n):
        rows.append((list(A[i]), Fraction(0), {i: Fraction(1)}, Fraction(0), frozenset([i])))
    if c is not None:
        rows.append((list(c), Fraction(-1), {}, Fraction(0), frozenset([n])))
    for j in range(m):
        pos = [r for r in rows if r[0][j] > 0]
        neg = [r for r in rows if r[0][j] < 0]
        new = [r for r in rows if r[0][j] == 0]
        eliminated = j + 1
        seen = set()
        for p in pos:
            for ng in neg:
                anc = p[4] | ng[4]
                # Kohler's rule: a combination of more than (#eliminated + 1) original
                # rows is redundant
                if len(anc) > eliminated + 1:
                    continue
                a = -ng[0][j]
                bq = p[0][j]
                coefs = [a * pc + bq * nc for pc, nc in zip(p[0], ng[0])]
                tco = a * p[1] + bq * ng[1]
                bv = {}
                for k, v in p[2].items():
                    bv[k] = bv.get(k, 0) + a * v
                for k, v in ng[2].items():
                    bv[k] = bv.get(k, 0) + bq * v
                cst = a * p[3] + bq * ng[3]
                # normalise scale so duplicates collapse
                scale = None
                for v in coefs[j + 1 :] + [tco] + [bv[k] for k in sorted(bv)]:
                    if v != 0:
                        scale = abs(v)
                        break
                if scale not in (None, 1):
                    coefs = [v / scale for v in coefs]
                    tco = tco / scale
                    bv = {k: v / scale for k, v in bv.items()}
                    cst = cst / scale
                key = (tuple(coefs), _norm_key(bv, cst, tco))
                if key in seen:
                    continue
                seen.add(key)
                new.append((coefs, tco, bv, cst, anc))
        rows = new
        if len(rows) > FM_CAP:
            raise E.PathAbort("FM cap")
    feas, lowers = [], []
    seen = set()
    for coefs, tco, bv, cst, _ in rows:
        bvc = {k: v for k, v in bv.items() if v != 0}
        if tco == 0:
            if not bvc:
                if cst < 0:
                    # 0 <= negative: infeasible for every b
                    feas.append(({}, cst))
                continue
            key = ("f", _norm_key(bvc, cst, 0))
            if key not in seen:
                seen.add(key)
                feas.append((bvc, cst))
        elif tco < 0:
            # tco*t <= rhs  ->  t >= rhs/tco
            bvn = {k: v / tco for k, v in bvc.items()}
            key = ("l", _norm_key(bvn, cst / tco, 0))
            if key not in seen:
                seen.add(key)
                lowers.append((bvn, cst / tco))
        else:  # cannot happen: t only enters with coefficient -1
            raise AssertionError("positive t coefficient in FM")
    return Projection(feas, lowers, n, m)


_PROJ_CACHE = {}
_VALIDATED = {}


def projection(A, c):
    key = (tuple(tuple(r) for r in A), None if c is None else tuple(c))
    p = _PROJ_CACHE.get(key)
    if p is None:
        p = fm_project(A, c)
        _PROJ_CACHE[key] = p
    return p, key


def row_expr(bv, cst, bz):
    e = E.q(cst)
    for k, v in bv.items():
        e = e + E.q(v) * bz[k]
    return e


def validate_projection(A, c, key, timeout_ms=5000):
    """Prove  proj(b,t) <=> exists x. A x <= b and c.x <= t  with z3 (quantified LRA)."""
    if key in _VALIDATED:
        return _VALIDATED[key]
    p = _PROJ_CACHE[key]
    n, m = p.n, p.m
    b = [z3.Real(f"vb{i}") for i in range(n)]
    t = z3.Real("vt")
    x = [z3.Real(f"vx{j}") for j in range(m)]
    body = [sum((E.q(A[i][j]) * x[j] for j in range(m)), z3.RealVal(0)) <= b[i] for i in range(n)]
    if c is not None:
        body.append(sum((E.q(c[j]) * x[j] for j in range(m)), z3.RealVal(0)) <= t)
    ex = z3.Exists(x, z3.And(*body)) if m else z3.And(*body)
    pr = [row_expr(bv, cst, b) >= 0 for bv, cst in p.feas]
    if c is not None:
        pr += [t >= row_expr(bv, cst, b) for bv, cst in p.lowers]
    proj = z3.And(*pr) if pr else z3.BoolVal(True)
    s = z3.Solver()
    s.set("timeout", timeout_ms)
    s.add(z3.Xor(ex, proj))
    r = str(s.check())
    ok = {"unsat": True, "sat": False}.get(r)
    _VALIDATED[key] = ok
    return ok


def _rank(rows, m):
    M = [list(r) for r in rows]
    rk = 0
    for col in range(m):
        pr = next((i for i in range(rk, len(M)) if M[i][col] != 0), None)
        if pr is None:
            continue
        M[rk], M[pr] = M[pr], M[rk]
        for i in range(len(M)):
            if i != rk and M[i][col] != 0:
                f = M[i][col] / M[rk][col]
                M[i] = [a - f * b_ for a, b_ in zip(M[i], M[rk])]
        rk += 1
    return rk


class LPResult(dict):
    """Behaves like scipy's OptimizeResult for the keys pacti reads."""

    def __getattr__(self, k):
        try:
            return self[k]
        except KeyError as e:
            raise AttributeError(k) from e


class _PointView:
    """Lazy x / slack: records that the optimal *point* (not only the value) was read."""

    def __init__(self, res):
        self.res = res


def _bounds_per_variable(bounds, m):
    """scipy's `bounds` argument as a list of (lo, hi) per variable (None = unbounded on that side)."""
    if bounds is None:
        return [(0, None)] * m
    bl = list(bounds)
    if len(bl) == 2 and not isinstance(bl[0], (list, tuple)):
        pairs = [(bl[0], bl[1])] * m
    else:
        pairs = [tuple(pr) for pr in bl]
        if len(pairs) == 1:
            pairs = pairs * m
        if len(pairs) != m:
            raise ValueError("linprog stub: bounds do not match the number of variables")
    out = []
    for lo, hi in pairs:
        for v in (lo, hi):
            if isinstance(v, E.SymReal):
                raise E.SymLeak("symbolic variable bound in linprog")
        lo = None if lo is None or lo == float("-inf") else lo
        hi = None if hi is None or hi == float("inf") else hi
        out.append((lo, hi))
    return out


def make_linprog(real_linprog, validate=False):
    import numpy as np

    def linprog(c, A_ub=None, b_ub=None, A_eq=None, b_eq=None, bounds=None, **kw):
        eng = E.ENGINE
        c_arr = np.asarray(c).reshape(-1)
        A = np.asarray(A_ub)
        b = np.asarray(b_ub).reshape(-1)
        sym_b = any(isinstance(v, E.SymReal) for v in b)
        if any(isinstance(v, E.SymReal) for v in c_arr) or any(isinstance(v, E.SymReal) for v in A.reshape(-1)):
            raise E.SymLeak("symbolic A or c in linprog")
        if eng is None or eng.mode == "real" or not sym_b:
            return real_linprog(
                c=c_arr.astype(float), A_ub=A.astype(float), b_ub=b.astype(float), bounds=bounds, **kw
            )
        if A_eq is not None:
            raise E.SymLeak("linprog stub only models inequality rows")
        if A.ndim != 2:
            raise E.SymLeak("linprog stub: A must be a matrix")
        n, m = A.shape
        if len(c_arr) != m or len(b) != n:
            raise ValueError("linprog stub: inconsistent dimensions")
        if m == 0:
            # scipy refuses a problem without variables ("Invalid input for linprog: c must be a 1-D array ...")
            raise ValueError("Invalid input for linprog (stub): the problem has no variables")
        Af = [[E.frac(A[i, j]) for j in range(m)] for i in range(n)]
        cf = [E.frac(v) for v in c_arr]
        bz = [E.toz(v) for v in b]
        # variable bounds (scipy: None means 0 <= x for every variable) become extra concrete rows
        n_rows = n
        for j, (lo, hi) in enumerate(_bounds_per_variable(bounds, m)):
            if lo is not None:
                Af.append([Fraction(-1) if k == j else Fraction(0) for k in range(m)])
                bz.append(E.q(-E.frac(lo)))
            if hi is not None:
                Af.append([Fraction(1) if k == j else Fraction(0) for k in range(m)])
                bz.append(E.q(E.frac(hi)))
        n = len(Af)
        # linprog is a function: the same problem asked twice on one path gets the same answer
        cache = eng.path_state.setdefault("lp_cache", {})
        ckey = (tuple(tuple(r) for r in Af), tuple(cf), tuple(z.get_id() for z in bz))
        if ckey in cache:
            hit = cache[ckey]
            out = LPResult(hit) if not isinstance(hit, _Tracked) else _Tracked(dict(hit), eng)
            for k in ("x", "slack"):
                if dict.get(hit, k) is not None:
                    dict.__setitem__(out, k, dict.get(hit, k).copy())
            return out
        proj, key = projection(Af, cf)
        if validate:
            ok = validate_projection(Af, cf, key)
            eng.path_state.setdefault("proj_validated", []).append(ok)
            if ok is False:
                raise E.PathAbort("projection validation failed")
        feas = [row_expr(bv, cst, bz) >= 0 for bv, cst in proj.feas]
        lowers = [row_expr(bv, cst, bz) for bv, cst in proj.lowers]
        feas_c = z3.And(*feas) if feas else z3.BoolVal(True)
        res = LPResult()
        rec = {"n": n, "m": m, "status": None}
        eng.lp_calls.append(rec)
        if not eng.branch(feas_c):
            rec["status"] = 2
            res.update(status=2, fun=None, x=None, slack=None, success=False, message="infeasible (stub)")
            cache[ckey] = res
            return res
        if not lowers:
            rec["status"] = 3
            res.update(status=3, fun=None, x=None, slack=None, success=False, message="unbounded (stub)")
            cache[ckey] = res
            return res
        rec["status"] = 0
        f = eng.fresh_real("fun")
        eng.assume(z3.And(*[f.z >= l for l in lowers]))
        eng.assume(z3.Or(*[f.z == l for l in lowers]))
        xs = [eng.fresh_real("x") for _ in range(m)]
        slack = []
        for i in range(n):
            ax = sum((E.q(Af[i][j]) * xs[j].z for j in range(m)), z3.RealVal(0))
            eng.assume(ax <= bz[i])
            slack.append(E.SymReal(z3.simplify(bz[i] - ax)))
        eng.assume(sum((E.q(cf[j]) * xs[j].z for j in range(m)), z3.RealVal(0)) == f.z)
        # de-facto contract (only used when asking for witnesses): a basic optimal
        # solution whenever the feasible set is pointed
        if n >= m and _rank(Af, m) == m:
            alts = []
            for S in itertools.combinations(range(n), m):
                if _rank([Af[i] for i in S], m) == m:
                    alts.append(z3.And(*[slack[i].z == 0 for i in S]))
            if alts:
                eng.lp_basic_facts.append(z3.Or(*alts))
                # harnesses may adopt the fact as part of the LP contract for LPs of the given widths (C18's fallback)
                if m in eng.path_state.get("lp_assume_basic_m", ()):
                    eng.assume(z3.Or(*alts))
        res.update(status=0, fun=f, success=True, message="optimal (stub)")
        res["x"] = np.array(xs, dtype=object)
        res["slack"] = np.array(slack[:n_rows], dtype=object)
        out = _Tracked(res, eng)
        cache[ckey] = out
        return out

    return linprog


class _Tracked(LPResult):
    """Result dict that notes when the optimal point (x / slack) is read."""

    def __init__(self, d, eng):
        super().__init__(d)
        self._eng = eng

    def __getitem__(self, k):
        if k in ("x", "slack"):
            self._eng.lp_point_read = True
        return dict.__getitem__(self, k)


# ---- oracle-side helpers: max of a linear form over a polyhedron with symbolic rhs ----


def max_over(A, bz, obj):
    """(feasible_formula, [value rows]) for  max obj.x  over {A x <= b}.

    Returns (feas, uppers): the polyhedron is non-empty iff feas, and if non-empty the
    maximum is  min_k uppers[k]  (unbounded above iff uppers is empty).
    """
    Af = [[E.frac(v) for v in r] for r in A]
    cf = [-E.frac(v) for v in obj]  # max obj.x = -min(-obj.x)
    proj, _ = projection(Af, cf)
    feas = [row_expr(bv, cst, bz) >= 0 for bv, cst in proj.feas]
    uppers = [-row_expr(bv, cst, bz) for bv, cst in proj.lowers]
    return (z3.And(*feas) if feas else z3.BoolVal(True)), uppers


def feasible_formula(A, bz):
    Af = [[E.frac(v) for v in r] for r in A]
    if not Af:
        return z3.BoolVal(True)
    proj, _ = projection(Af, None)
    feas = [row_expr(bv, cst, bz) >= 0 for bv, cst in proj.feas]
    return z3.And(*feas) if feas else z3.BoolVal(True)


def feasibility_claims(mode, A, bz, delta=1e-6):
    """(wrongly_claimed_infeasible, wrongly_claimed_feasible) as formulas over the constants.

    Symbolic mode: exact (feasible / not feasible).  Replay mode: the float code decides feasibility with
    HiGHS's tolerances, so a claim only counts as wrong if it is wrong robustly: 'infeasible' is wrong if the
    system tightened by delta*(1+|b|) is still feasible, 'feasible' is wrong if even the relaxed system is not.
    """
    if mode != "real":
        f = feasible_formula(A, bz)
        return f, z3.Not(f)

    def shifted(sign):
        out = []
        for b in bz:
            mag = z3.If(b >= 0, b, -b)
            out.append(b + sign * E.q(delta) * (1 + mag))
        return out

    return feasible_formula(A, shifted(-1)), z3.Not(feasible_formula(A, shifted(+1)))
