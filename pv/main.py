"""Entry point: ./check <Cxx> <tier> | --replay <file> | --selftest"""
import os
import sys


def main(argv):
    if not argv:
        print(__doc__)
        return 2
    if argv[0] == "--replay":
        from .driver import run_replay_file

        return run_replay_file(argv[1])
    if argv[0] == "--validate-translation":
        from .validate import main as vt

        return vt()
    if argv[0] == "--selftest":
        from .selftest import main as st

        return st(argv[1:])
    prop = argv[0]
    tier = argv[1] if len(argv) > 1 else os.environ.get("VERIF_TIER", "quick")
    from .driver import run_check

    return run_check(prop, tier)


if __name__ == "__main__":
    sys.exit(main(sys.argv[1:]))
