"""Per-property manifest entries (consumed by tools_manifest.py)."""
HOOKS = {
    "guard": "PACTI_VERIF",
    "enable": "none needed: all stubs are run-time attribute bindings made by the harness process on the imported pacti modules (pv/shims.py); /repo carries no instrumentation",
    "baseline_off_cmd": "cd /repo && /venv/bin/python -m pytest -ra -q -p no:cacheprovider --timeout=900 --continue-on-collection-errors",
    "source_commits": [],
    "add_only": True,
}
COMMON_NOTE = (
    "Bounded: coefficient patterns/wirings/options are enumerated (stated in evidence.bounds); constants are symbolic reals decided by z3. "
    "Trusted: z3; the exact parametric-LP stub for scipy.linprog (any optimal point; Fourier-Motzkin projection, z3-validated in the thorough tier), "
    "the exact row-reduction stub for sympy.solve, the float/str bindings of pv/shims.py; IEEE rounding and HiGHS tolerances are seen only "
    "through replay of solver-constructed witnesses on the unshimmed code."
)
TECH = "symbolic execution of the real Python on z3-backed proxy scalars (decision-tree re-execution), exact parametric-LP stub, SMT (QF_LRA) obligations per path, counterexamples replayed on the unshimmed code"
CHECKS = {
    "C14": {
        "text": "Self-contained census: a seeded subset of the shapes of thirteen other harnesses (C01-C04, C07-C12, C15-C17) is re-executed symbolically with the semantic obligations switched off, so that every feasible path of every public operation is classified by outcome; a class outside the documented set is a counterexample whose model is the input (this is how the AssertionError of tactic 5 and the ZeroDivisionError of the parser were found). Adversarial shapes add empty lists, single-variable constraints, unbounded/degenerate LP contexts, more eliminated variables than context rows and the real error-message formatting. Every single-field deletion or kind change of a valid contract dictionary and file entry, in both representations and through validate_contract_dict / from_dict / read_contracts_from_file, is enumerated exhaustively and must be rejected with ContractFormatError or ValueError, or read with the same meaning.",
        "design_ref": "DESIGN.md section 8 C14",
        "note": COMMON_NOTE + " The dictionary/file fault part is a concrete exhaustive fault enumeration (no symbolic values); it is reported inside the same evidence.",
        "technique": TECH + "; outcome census over all paths; exhaustive single-fault enumeration for dictionaries",
    },
    "C13": {
        "text": "One inductive step per operation instead of enumerated histories: from an arbitrary valid state (operands with symbolic constants, module state as at import) each of 18 operations (compose, quotient, merge, refines, rename, copy, simplify, both eliminations, optimize, bounds, dict/string conversions, parse, membership, emptiness, term-list set operations, evaluate) is executed symbolically; on every path, also when it raises, a deep snapshot of all operands, argument lists and module-level state (tactic tables, grammar elements, tolerances, numpy print options) is compared before/after with constants provably equal, an identity walk shows the result shares no mutable object with an operand, and the same call repeated on the same path returns an equal result (or fails alike). Unchanged operands and module state make 'state = import state' an invariant, which extends repeatability to any later point of any session.",
        "design_ref": "DESIGN.md section 8 C13",
        "note": COMMON_NOTE + " Histories longer than one step are covered by the invariant argument, not enumerated; Var objects, numbers and strings count as immutable; IoContract.simplify() is a documented in-place mutator and is excluded.",
        "technique": TECH + "; inductive-step argument for histories",
    },
    "C05": {
        "text": "The real iocontract.py (IoContract constructor, compose_tactics, quotient_tactics, merge, TermList set operations, lists.py) is executed over an abstract constraint domain: terms are uninterpreted predicates (z3 Bools at one arbitrary behaviour), and every primitive (refine/relax elimination, simplify, refines) is a nondeterministic stub constrained only by its documented contract. All primitive outcomes (ValueError, leftovers, fresh results, drops, refines True/False) are solver-decided forks; on every returning path the propositional form of C01/C02/C08 is one SAT query. Validity at an arbitrary behaviour is validity because all contracts and obligations are pointwise implications.",
        "design_ref": "DESIGN.md section 8 C05",
        "note": "Bounded: interface topologies over 3 variables (thorough: all 120 multisets, and a sample over 4), <=2 terms per list, one optional term shared by both operands. Trusted: z3; that the stub contracts in pv/abstract.py state the documented primitive specifications (they are quoted from TermList's docstrings). No LP, sympy or float shim is involved. Counterexamples are replayed by re-running the recorded decision sequence with concrete truth values on the unshimmed iocontract.py.",
        "technique": "symbolic execution of the real algebra layer over an abstract domain (uninterpreted predicates as z3 Bools, nondeterministic primitive stubs, decision-tree re-execution), propositional SMT obligation per path",
    },
    "C06": {
        "text": "Same abstract execution of the real iocontract.py, bounded-exhaustive over interface topologies (every multiset of role pairs over 3 variables, thorough also 4; sampled beyond), with vars_to_keep / additional_inputs as symbolic subsets of all variables so that illegal requests are generated, obedient primitives on every topology and adversarial ones on the 3-variable family. Each path is compared with a reference model of the prescribed interface algebra written from the property text: returned contracts well formed, interface as prescribed, IncompatibleArgsError exactly for meaningless requests (and, adversarially, when a primitive left forbidden variables); constructor faults, rename, copy and refines across interfaces are covered by single-contract jobs.",
        "design_ref": "DESIGN.md section 8 C06",
        "note": "For this property the solver's role is path pruning and the quantification over primitive outcomes and request subsets; the interface comparison on each path is a concrete set comparison against the reference model in pv/topo.py. Trusted: that reference model (30 lines, from the property text).",
        "technique": "bounded-exhaustive symbolic execution of the real algebra layer over an abstract domain (z3-decided forks over requests and primitive outcomes), differential comparison with a reference interface model per path",
    },
    "C10": {
        "text": "Symbolic execution of to_machine_dict/from_dict, to_dict/from_strings, write/read_contracts_to_file, the whole printer (_lhs_str, _number_to_string, opposite-term folding with np.isclose) and then the real parser on the printer's output, with up to 3 (thorough 5) numbers symbolic (constants, one coefficient) constrained to the property's domain. format(v,'.4g') is modelled numerically (Int mantissa, LIRA); printed numerals are placeholders mapped back to the rounded values. Machine dict: equal and hash-equal, constants provably identical. File/string forms: same interface; meaning of the read-back contract equals the reference reading of what was printed (4 significant digits; first term of a folded pair governs both halves), tolerant both ways; folds only for opposite terms; every printed string accepted. A concrete mode exercises real formatting (exponent notation) and lexing.",
        "design_ref": "DESIGN.md section 8 C10",
        "note": COMMON_NOTE + " json.dumps/load in fileio are stubbed in symbolic runs (opaque token + remembered copy; real files are written and read); replays use the real json.",
        "technique": "symbolic execution of the real printer and parser on z3-backed numbers (decision-tree re-execution), numeric model of .4g formatting (QF_LIRA), SMT equivalence queries per path, replay on the unshimmed code",
    },
    "C09": {
        "text": "The real pyparsing grammar, every parse action and all of syntax/data.py run on strings generated from the documented grammar in which every numeral is a digit placeholder bound to a fresh non-negative real: coefficient products, cancellation to zero, equality of absolute-term groups and zero divisors are branch conditions explored by z3. Per accepting path one QF_NRA query decides 'parsed inequalities <=> written relation' for all points and numerals; convexity errors are accepted iff a syntactic absolute-term group has net coefficient <= 0; value-dependent syntax errors only for a zero divisor; malformed mutants must raise the syntax error; parsing twice must agree. A second mode uses concrete numerals in several spellings and spacings.",
        "design_ref": "DESIGN.md section 8 C09",
        "note": COMMON_NOTE + " No LP is involved in this check. Expression trees are bounded (depth, numerals) and generated, not exhaustive; strings the grammar refuses independently of numeral values are counted, not judged.",
        "technique": "symbolic execution of the real parser actions on z3-backed numerals (decision-tree re-execution), SMT (QF_NRA) equivalence query per path against a reference semantics of the expression tree, replay with numerals written into the text",
    },
    "C11": {
        "text": "Symbolic execution of contains_behavior / evaluate / substitute_variable with coefficients, constants and behaviour values all symbolic (small shapes, QF_NRA) and with concrete coefficients on larger shapes; the returned Boolean must equal the conjunction of the inequalities exactly (boundary included) and ValueError must be raised iff a variable with non-zero coefficient is unassigned. is_empty / is_polytope_empty with symbolic constants must agree with the exact projection. A combined harness decides consistency with refines.",
        "design_ref": "DESIGN.md section 8 C11",
        "note": COMMON_NOTE,
        "technique": TECH + "; QF_NRA for symbolic coefficient products",
    },
    "C12": {
        "text": "Symbolic execution of PolyhedralIoContract.optimize / get_variable_bounds / PolyhedralTermList.optimize (objective parsed by the real grammar) with symbolic contract constants; the value must equal the exact optimum computed by the oracle's own projection within 1e-6 relative, None iff feasible and unbounded in the requested direction, ValueError iff infeasible, bounds ordered (min, max) and enclosing every behaviour. Verifies pacti's glue (polarity, union of a and g, status mapping) under the documented LP contract; HiGHS quirks only via replay.",
        "design_ref": "DESIGN.md section 8 C12",
        "note": COMMON_NOTE,
        "technique": TECH,
    },
    "C16": {
        "text": "Term level: rename_variable with symbolic coefficients and constant, result compared coefficient-wise with the substituted map (incl. the cancelling case). Contract level: rename_variable / rename_variables with symbolic constants over all (source, target) cases and mapping sequences; interface compared with a reference written from the property text, meaning compared under the induced point substitution with the tolerant oracle (four queries per path), IncompatibleArgsError exactly for input/output clashes.",
        "design_ref": "DESIGN.md section 8 C16",
        "note": COMMON_NOTE,
        "technique": TECH,
    },
    "C17": {
        "text": "Symbolic execution of NestedTermList (constructor disjointness check, contains_behavior, <=, intersect) and IoContractCompound.merge with symbolic constants and behaviour values: membership == disjunction (exact), merged alternatives' union == intersection of unions (tolerant both ways) with no empty alternative kept (projection), <= True implies union containment, overlap ValueError iff two alternatives share a behaviour (exact projection; touching alternatives are the solver-found boundary).",
        "design_ref": "DESIGN.md section 8 C17",
        "note": COMMON_NOTE,
        "technique": TECH,
    },
    "C19": {
        "text": "Symbolic execution of __eq__/__hash__/copy of Var, PolyhedralTerm, PolyhedralTermList, PolyhedralIoContract and the compound contract. Term coefficients/constants symbolic (equality regions are solver-explored; formatted numbers are canonical tokens so that hash(str(term)) is faithful); the equality answer must coincide with field-wise equality for all constants on the path, equal objects must hash equally, copies must be equal and share no mutable state, single-field edits must compare unequal.",
        "design_ref": "DESIGN.md section 8 C19",
        "note": COMMON_NOTE,
        "technique": TECH,
    },
    "C07": {
        "text": "Symbolic execution of PolyhedralTermList.simplify / reduce_polytope / termlist_to_polytope / polytope_to_termlist and of the contract constructor and IoContract.simplify with symbolic constants on patterns with planted duplicates, scalings, positive combinations and context-implied terms. Per path: result is a selection of the input (constants provably equal), equivalent in context both ways, no kept term droppable with margin (decided quantifier-free through the exact projection), ValueError only on an infeasible system.",
        "design_ref": "DESIGN.md section 8 C07",
        "note": COMMON_NOTE,
        "technique": TECH,
    },
    "C08": {
        "text": "Symbolic execution of IoContract.merge (and the simplifying constructor) for enumerated interface overlaps and coefficient patterns, constants symbolic and optionally shared between the operands; per path the interface is the union and four QF_LRA queries decide the two equivalences (assumptions, assumptions-and-guarantees) for all constants and behaviours; both call orders are run on the same path and compared.",
        "design_ref": "DESIGN.md section 8 C08",
        "note": COMMON_NOTE,
        "technique": TECH,
    },
    "C15": {
        "text": "Symbolic execution of compose and merge on pairs whose guarantees overlap on interface variables (identical, scaled, mutually implied rows; constants free so that the mutual-implication point is found by the solver). Per returning path one query per interface-level operand guarantee decides that it is implied by the result; for unconnected pairs four queries decide exactness.",
        "design_ref": "DESIGN.md section 8 C15",
        "note": COMMON_NOTE,
        "technique": TECH,
    },
    "C02": {
        "text": "Bounded symbolic execution of the real quotient_tactics (assumption relaxation with/without the divisor's guarantees, two guarantee refinements, refines test, deepcopy, constructor) for enumerated quotient wirings, additional_inputs subsets, options and coefficient patterns with symbolic constants; one QF_LRA query per returning path decides that divisor plus quotient meet the dividend. Both outcomes of the 'dividend assumptions refine divisor assumptions' test are reached and counted.",
        "design_ref": "DESIGN.md section 8 C02",
        "note": COMMON_NOTE,
        "technique": TECH,
    },
    "C03": {
        "text": "Symbolic execution of PolyhedralTermList.refines / verify_polytope_containment / is_polytope_empty and the contract-level refines, <=, contains_environment, contains_implementation with symbolic constants, right-hand constants optionally tied to left-hand ones (shared, scaled, summed) so that exactly-tight containment is a solver-explored region. Answer True must imply containment within tolerance; answer False must imply that exact containment fails, decided without quantifiers through the exact projection of the left polyhedron. Every path is replayed with dyadic witnesses on the real float code, where must-True is required (this is how the round-off defect was found).",
        "design_ref": "DESIGN.md section 8 C03",
        "note": COMMON_NOTE,
        "technique": TECH,
    },
    "C01": {
        "text": "Bounded symbolic execution of the real PolyhedralIoContract.compose_tactics (assumption refinement, three guarantee relaxations, simplify, constructor) for enumerated wirings/coefficient patterns/options with every constant symbolic; per returning path one QF_LRA query decides the assume-guarantee soundness obligation for all constants and all behaviours. Reaches the tie/degenerate-constant branches that decide which tactic fires, which a finite test sample cannot.",
        "design_ref": "DESIGN.md section 8 C01",
        "note": COMMON_NOTE,
        "technique": TECH,
    },
    "C04": {
        "text": "Bounded symbolic execution of the real elim_vars_by_refining/relaxing (all tactics, simplify, reduce_polytope) with every constant of term list and context a z3 Real; on each feasible path one QF_LRA query decides 'context and result imply original' (resp. 'implied by') for all constants and all points. Tests sample a few dozen concrete constants; the branches that make a tactic unsound sit on measure-zero sets of constants that only the solver finds.",
        "design_ref": "DESIGN.md section 8 C04",
        "note": COMMON_NOTE,
        "technique": "symbolic execution of the real Python on z3-backed proxy scalars (decision-tree re-execution), exact parametric-LP stub, SMT (QF_LRA) obligations per path, counterexamples replayed on the unshimmed code",
    },
    "C18": {
        "text": "Symbolic execution of the real constraints_to_vertices (value checks, union with the boundary constraints, _substitute_in_termlist, termlist_to_polytope, the column fix-up, _get_feasible_point, _get_bounding_vertices incl. the no-interior fallback and the angular sort) with constraint constants, fixed values and axis limits as z3 Reals (coefficients concrete). The two C libraries below pacti's code are replaced by exact models under their documented contracts: Qhull's HalfspaceIntersection by solver-decided vertex enumeration (QhullError unless the interior point is strictly inside), math.atan2 by the exact angular order (half-plane, then sign of a cross product: QF_NRA). Per returning path: every returned point satisfies all constraints and limits at the fixed values, every returned point is a corner (two independent active rows), no corner is missing (free point quantified by the solver), consecutive points share an edge (boundary order); ValueError iff the slice is empty or a needed value is missing. What this does NOT establish: that Qhull itself enumerates vertices correctly and how HiGHS/Qhull behave within float tolerance of degeneracy; those are seen only through the replays on the unshimmed code.",
        "design_ref": "DESIGN.md section 8 C18",
        "note": COMMON_NOTE + " For C18 additionally trusted: the exact vertex-enumeration model of scipy.spatial.HalfspaceIntersection and the exact angular-order model of math.atan2 (pv/plots_shim.py); the two-variable LPs of the fallback are assumed to return a basic optimum.",
        "technique": TECH + "; exact vertex-enumeration model of Qhull and exact angular-order model of atan2 (QF_NRA path conditions)",
    },
}
NOT_APPLICABLE = {}
