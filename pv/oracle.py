"""Obligation formulas in the numerical reading fixed by the properties.

    holds(T, s)(p)  :=  AND_t  a_t.p <= c_t + s
    broken(T)(p)    :=  OR_t   a_t.p >  c_t + 1e-4*(1+|c_t|)
    box(p)          :=  AND_v  -1000 <= p_v <= 1000
    honours(C)(p)   :=  holds(C.a, 1e-7)(p)  =>  holds(C.g, 0)(p)

Coefficients and constants may be numbers or proxies; points are z3 Reals `p_<name>`.
"""
from __future__ import annotations

from fractions import Fraction

import sys

import z3

from . import engine as E

if hasattr(sys, "set_int_max_str_digits"):
    sys.set_int_max_str_digits(0)

TOL = Fraction(1, 10000)
HYP = Fraction(1, 10**7)
BOX = 1000


def pt(name, suffix=""):
    return z3.Real(f"p_{name}{suffix}")


def zabs(e):
    return z3.If(e >= 0, e, -e)


def rows_of(tl):
    """[(dict name->coef, const)] of a PolyhedralTermList / list of PolyhedralTerm / rows."""
    terms = getattr(tl, "terms", tl)
    out = []
    for t in terms:
        if isinstance(t, tuple):
            out.append(t)
        else:
            out.append(({v.name: c for v, c in t.variables.items()}, t.constant))
    return out


def lhs(row, suffix=""):
    coefs, _ = row
    e = z3.RealVal(0)
    for n, c in coefs.items():
        e = e + E.toz(c) * pt(n, suffix)
    return e


def holds(tl, slack=0, suffix=""):
    rs = rows_of(tl)
    if not rs:
        return z3.BoolVal(True)
    return z3.And(*[lhs(r, suffix) <= E.toz(r[1]) + E.q(slack) for r in rs])


def margin(c):
    cz = E.toz(c)
    return E.q(TOL) * (1 + zabs(cz))


def broken(tl, suffix=""):
    rs = rows_of(tl)
    if not rs:
        return z3.BoolVal(False)
    return z3.Or(*[lhs(r, suffix) > E.toz(r[1]) + margin(r[1]) for r in rs])


def names_of(*tls):
    ns = []
    for tl in tls:
        for coefs, _ in rows_of(tl):
            for n in coefs:
                if n not in ns:
                    ns.append(n)
    return ns


def box(names, suffix=""):
    if not names:
        return z3.BoolVal(True)
    return z3.And(*[z3.And(pt(n, suffix) >= -BOX, pt(n, suffix) <= BOX) for n in names])


def honours(a, g, suffix=""):
    return z3.Implies(holds(a, HYP, suffix), holds(g, 0, suffix))


def ev(model, z):
    """Exact Fraction value of a z3 real term under a model."""
    v = model.eval(z, model_completion=True)
    v = z3.simplify(v)
    if z3.is_rational_value(v):
        return Fraction(v.numerator_as_long(), v.denominator_as_long())
    if z3.is_algebraic_value(v):
        a = v.approx(12)
        return Fraction(a.numerator_as_long(), a.denominator_as_long())
    if z3.is_int_value(v):
        return Fraction(v.as_long())
    raise ValueError(f"cannot evaluate {z} -> {v}")


def matrix_of(tl, names):
    rs = rows_of(tl)
    A = [[E.frac(coefs.get(n, 0)) for n in names] for coefs, _ in rs]
    b = [E.toz(c) for _, c in rs]
    return A, b
