"""Stubs for pacti.utils.plots (property C18).

`scipy.spatial.HalfspaceIntersection` and `math.atan2` are C code; both are rebound in the
module namespace of `pacti.utils.plots` (no edit to /repo):

* HalfspaceIntersection(halfspaces, interior_point) — documented contract: the interior point
  must be *clearly inside* every halfspace, otherwise QhullError; `.intersections` are the
  vertices of the intersection.  The stub branches on "strictly inside" and enumerates the
  vertices exactly: coefficient columns are concrete, offsets symbolic, so every candidate
  vertex (two non-parallel rows) is a linear expression in the symbols and "satisfies all other
  rows" / "equals an earlier vertex" are solver-decided branches.  The order of the vertices
  is left open (two orders are forked).
* atan2(dy, dx) — returns an `Angle` whose `<` is the exact order of atan2 values on
  (-pi, pi]: half-plane first, then the sign of the cross product (a polynomial of degree 2
  in the symbols: QF_NRA).

`linprog` in the module is bound to the parametric LP stub of pv/lp.py.  For the two-variable
LPs of the no-interior fallback the stub additionally *assumes* its "basic optimal solution"
fact (HiGHS returns a vertex of a pointed feasible set) — stated in the assumptions of C18 and
checked by the replays on the real HiGHS.
"""
from __future__ import annotations

import math

import z3

from . import engine as E

_REAL = {}


class Angle:
    """Value of atan2(dy, dx) as an ordered quantity (exact)."""

    __slots__ = ("dy", "dx")

    def __init__(self, dy, dx):
        self.dy, self.dx = dy, dx

    def _half(self):
        # 0: (-pi, 0)   1: angle 0 (incl. the origin)   2: (0, pi)   3: angle pi
        dy, dx = self.dy, self.dx
        if dy < 0:
            return 0
        if dy > 0:
            return 2
        if dx < 0:
            return 3
        return 1

    def __lt__(self, other):
        ha, hb = self._half(), other._half()
        if ha != hb:
            return ha < hb
        if ha in (1, 3):
            return False
        return bool(self.dx * other.dy - self.dy * other.dx > 0)

    def __gt__(self, other):
        return other.__lt__(self)

    def __eq__(self, other):
        return not self.__lt__(other) and not other.__lt__(self)

    def __le__(self, other):
        return not other.__lt__(self)

    def __ge__(self, other):
        return not self.__lt__(other)

    def __float__(self):
        if isinstance(self.dy, E.SymReal) or isinstance(self.dx, E.SymReal):
            raise E.SymLeak("symbolic angle used as a float")
        return math.atan2(self.dy, self.dx)


def sym_atan2(dy, dx):
    eng = E.ENGINE
    if eng is None or eng.mode == "real":
        return math.atan2(dy, dx)
    return Angle(dy, dx)


def _lin(a1, a2, vx, vy):
    return E.q(a1) * vx + E.q(a2) * vy


def exact_vertices(A, bz, eng):
    """Vertices of {p : A p <= b} (A concrete n x 2 Fractions, b z3 terms): solver-decided enumeration."""
    n = len(A)
    verts = []
    for i in range(n):
        for j in range(i + 1, n):
            det = A[i][0] * A[j][1] - A[i][1] * A[j][0]
            if det == 0:
                continue
            vx = z3.simplify((bz[i] * E.q(A[j][1]) - bz[j] * E.q(A[i][1])) / E.q(det))
            vy = z3.simplify((bz[j] * E.q(A[i][0]) - bz[i] * E.q(A[j][0])) / E.q(det))
            others = [_lin(A[k][0], A[k][1], vx, vy) <= bz[k] for k in range(n) if k not in (i, j)]
            if others and not eng.branch(z3.And(*others)):
                continue
            dup = False
            for ux, uy in verts:
                if eng.branch(z3.And(vx == ux, vy == uy)):
                    dup = True
                    break
            if not dup:
                verts.append((vx, vy))
    return verts


def make_halfspace_intersection(real_cls, qhull_error):
    import numpy as np

    class HalfspaceIntersectionStub:
        def __init__(self, halfspaces, interior_point, *a, **kw):
            eng = E.ENGINE
            H = np.asarray(halfspaces)
            p = np.asarray(interior_point).reshape(-1)
            sym = any(isinstance(v, E.SymReal) for v in list(H.reshape(-1)) + list(p))
            if eng is None or eng.mode == "real" or not sym:
                r = real_cls(H.astype(float), p.astype(float), *a, **kw)
                if eng is not None:
                    eng.path_state["hs_ok"] = True
                self.intersections = r.intersections
                return
            if H.ndim != 2 or H.shape[1] != 3 or len(p) != 2:
                raise E.SymLeak("HalfspaceIntersection stub models two dimensions only")
            if any(isinstance(v, E.SymReal) for v in H[:, :2].reshape(-1)):
                raise E.SymLeak("symbolic normal in HalfspaceIntersection")
            A = [[E.frac(H[i, 0]), E.frac(H[i, 1])] for i in range(H.shape[0])]
            bz = [z3.simplify(-E.toz(H[i, 2])) for i in range(H.shape[0])]  # A p + h <= 0  <=>  A p <= -h
            px, py = E.toz(p[0]), E.toz(p[1])
            eng.path_state["hs_calls"] = eng.path_state.get("hs_calls", 0) + 1
            inside = z3.And(*[_lin(A[i][0], A[i][1], px, py) < bz[i] for i in range(len(A))])
            if not eng.branch(inside):
                raise qhull_error("stub: the interior point is not clearly inside every halfspace")
            eng.path_state["hs_ok"] = True
            verts = exact_vertices(A, bz, eng)
            if len(verts) > 1 and eng.choose("hs_order"):
                verts = verts[::-1]
            self.intersections = np.array([[E.SymReal(x), E.SymReal(y)] for x, y in verts], dtype=object)
            self.halfspaces = H
            self.interior_point = p

    return HalfspaceIntersectionStub


def install():
    """Bind the stubs in pacti.utils.plots (idempotent)."""
    from . import lp, shims

    shims.import_pacti()
    import pacti.utils.plots as PL

    if not _REAL:
        _REAL["linprog"] = PL.linprog
        _REAL["hs"] = PL.HalfspaceIntersection
        _REAL["atan2"] = PL.atan2
    PL.linprog = lp.make_linprog(_REAL["linprog"])
    PL.HalfspaceIntersection = make_halfspace_intersection(_REAL["hs"], PL.QhullError)
    PL.atan2 = sym_atan2
    return PL


STUBS_DOC = [
    "scipy.spatial.HalfspaceIntersection -> exact vertex enumeration of the halfspace intersection (QhullError unless the interior point is strictly inside; each vertex once; order open)",
    "math.atan2 -> exact angular order (half-plane, then sign of the cross product)",
    "linprog in pacti.utils.plots -> the parametric LP stub; two-variable LPs return a basic (vertex) optimum",
]
