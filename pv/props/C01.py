"""C01 — composition returns a sound abstraction of the exact composition."""
from __future__ import annotations

import random

import z3

from .. import build as B
from .. import cshapes as CS
from .. import oracle as O

PROP = "C01"
RULE = (
    "job = (wiring, coefficient patterns of both contracts, call order, vars_to_keep, simplify, tactics_order); all "
    "constants symbolic; each feasible path of PolyhedralIoContract.compose_tactics is one state; obligation per "
    "returning path: R.a ∧ honours(C1) ∧ honours(C2) ∧ (C1.a or C2.a or R.g broken) unsat over all constants and points"
)
ASSUMPTIONS = [
    "coefficients concrete (enumerated), constants symbolic",
    "linprog = exact LP (any optimal point), sympy.solve = exact row reduction, __str__ of terms stubbed",
    "numerical reading of the property: box 1000, conclusion tolerance 1e-4*(1+|c|), 1e-7 slack on components' own assumptions",
]
BOUNDS = {
    "quick": {"variables": "<=6 per pair", "terms": "<=2 assumptions, <=2 guarantees per contract", "alphabet": [-2, -1, 1, 2]},
    "thorough": {"variables": "<=6 per pair", "terms": "<=2 assumptions, <=3 guarantees per contract", "alphabet": [-3, -2, -1, 1, 2, 3, 0.5]},
}
OPTS = {"quick": {"tier_budget_s": 240, "max_paths": 2000, "job_budget_s": 60}, "thorough": {"tier_budget_s": 2400, "max_paths": 20000, "job_budget_s": 400}}
REACH = {"quick": ["OK", "IAE", "wiring:cascade", "wiring:independent", "wiring:shared-input", "wiring:feedback-free", "kept"]}


def jobs(tier, seed):
    rng = random.Random(seed * 7919 + 1)
    out = []
    orders = B.tactic_orders(rng, n_perm=2 if tier == "quick" else 5) + [None]
    for name, c1, c2, keep in CS.CURATED_COMPOSE:
        for order in ("12", "21"):
            for simp in (True, False):
                for tac in orders:
                    if tier == "quick" and tac not in ([1, 2, 3, 4, 5], None, [1], [2], [3], [4], [5]) and rng.random() < 0.5:
                        continue
                    out.append({"kind": "curated:" + name, "wiring": name, "c1": c1, "c2": c2, "order": order, "keep": keep, "simplify": simp, "tactics": tac})
    n_rand = 140 if tier == "quick" else 2500
    alphabet = BOUNDS[tier]["alphabet"]
    wirings = list(CS.WIRINGS)
    for i in range(n_rand):
        w = wirings[i % len(wirings)]
        c1, c2 = CS.compose_pair(rng, w, alphabet)
        if tier == "thorough" and rng.random() < 0.3:
            c2["g"].append(B.rterm(rng, c2["in"] + c2["out"], alphabet + [0, 0], must=c2["out"], max_nz=3))
        outs = c1["out"] + c2["out"]
        keep = [v for v in outs if rng.random() < 0.25]
        out.append({"kind": "random:" + w, "wiring": w, "c1": c1, "c2": c2, "order": rng.choice(["12", "21"]), "keep": keep, "simplify": rng.random() < 0.6, "tactics": rng.choice(orders)})
    # three coupled links: the consumer's guarantee (or assumption) mentions all three internal variables, the
    # producer's guarantees couple them with near-dominant weights (Kaykobad boundary of tactics 1/3, tactic 5 rows)
    n3 = 40 if tier == "quick" else 500
    ys = ["y0", "y1", "y2"]
    for i in range(n3):
        sgn = rng.choice([-1, 1])
        g1 = []
        for r, dv in enumerate(ys):
            row = {dv: 1}
            for v in ys:
                if v != dv and rng.random() < 0.5:
                    row[v] = rng.choice([0.4, 0.5, 0.6, 0.6, 0.75])
            row[f"x{r}"] = -1
            g1.append({k: sgn * v for k, v in row.items()})
        c1 = {"in": ["x0", "x1", "x2"], "out": ys, "a": [], "g": g1}
        where = rng.choice(["g", "g", "a"])
        t = {v: -sgn for v in ys}
        if where == "g":
            c2 = {"in": ys, "out": ["z"], "a": [], "g": [dict(t, z=sgn)]}
        else:
            c2 = {"in": ys, "out": ["z"], "a": [{v: sgn for v in ys}], "g": [{"z": 1, "y0": -1}]}
        out.append({"kind": "three-links:" + where, "wiring": "three-links", "c1": c1, "c2": c2, "order": rng.choice(["12", "21"]), "keep": [], "simplify": rng.random() < 0.5, "tactics": rng.choice([None, [1], [3], [1, 2, 3, 4, 5], [5, 1]])})
    # the column-sum boundary of tactic 1 made deliberate: two rows put weights on the same third variable whose own row
    # is pure, so that only the *accumulated* off-diagonal weight (0.6 + 0.6, 0.75 + 0.6) exceeds the diagonal
    col_jobs = []
    for col in range(3):
        for sgn in (1, -1):
            for w1, w2 in ((0.6, 0.6), (0.75, 0.6), (0.4, 0.4)):
                g1 = []
                for r, dv in enumerate(ys):
                    row = {dv: 1}
                    if r != col:
                        row[ys[col]] = w1 if len(g1) == (0 if col else 1) else w2
                    row[f"x{r}"] = -1
                    g1.append({k: sgn * v for k, v in row.items()})
                c1 = {"in": ["x0", "x1", "x2"], "out": ys, "a": [], "g": g1}
                for where in ("g", "a"):
                    if where == "g":
                        c2 = {"in": ys, "out": ["z"], "a": [], "g": [dict({v: -sgn for v in ys}, z=sgn)]}
                    else:
                        c2 = {"in": ys, "out": ["z"], "a": [{v: sgn for v in ys}], "g": [{"z": 1, "y0": -1}]}
                    for tac in (None, [1], [3, 1]):
                        col_jobs.append({"kind": "three-links:column-sum:" + where, "wiring": "three-links", "c1": c1, "c2": c2, "order": rng.choice(["12", "21"]), "keep": [], "simplify": rng.random() < 0.5, "tactics": tac})
    out.extend(col_jobs if tier == "thorough" else rng.sample(col_jobs, 16))
    return out


def _compose(ctx, job, tactics):
    c1 = B.mk_contract(ctx, job["c1"], "c1")
    c2 = B.mk_contract(ctx, job["c2"], "c2")
    first, second = (c1, c2) if job["order"] == "12" else (c2, c1)
    res, used = first.compose_tactics(second, list(job["keep"]), job["simplify"], None if tactics is None else list(tactics))
    return c1, c2, res, used


def run(ctx, job):
    ctx.tag("wiring:" + job["wiring"].split("-dup")[0] if job["wiring"] in CS.WIRINGS else "wiring:" + job["wiring"])
    try:
        c1, c2, res, used = _compose(ctx, job, job["tactics"])
    except ValueError as e:
        return {"cls": B.classify(e)}
    except Exception as e:
        cls = B.classify(e)
        ctx.expect("only-documented-exceptions", False, info=cls + "@" + B.innermost_pacti_frame(e))
        return {"cls": cls}
    if job["keep"]:
        ctx.tag("kept")
    for lst in used:
        for num, _, _ in lst:
            ctx.tag("left-as-is" if num in (0, -1) else f"tactic{num}")
    names = O.names_of(c1.a, c1.g, c2.a, c2.g, res.a, res.g)
    ctx.obligation(
        "composition-sound",
        z3.And(
            O.box(names),
            O.holds(res.a),
            O.honours(c1.a, c1.g),
            O.honours(c2.a, c2.g),
            z3.Or(O.broken(c1.a), O.broken(c2.a), O.broken(res.g)),
        ),
    )
    return {"cls": "OK", "res": res}


def culprit(job, consts, label, rec):
    if label == "only-documented-exceptions":
        for o in rec["obligations"]:
            if o["label"] == label:
                return o.get("info", "")
    from .. import engine as E
    from ..driver import Ctx

    tactics = job["tactics"] if job["tactics"] is not None else [1, 2, 3, 4, 5]
    for k in tactics:
        order = [t for t in tactics if t != k]
        eng = E.Engine(mode="real")
        c2 = Ctx(eng, witness=consts)
        j2 = dict(job, tactics=order)
        eng.run_real(lambda e: run(c2, j2))
        if not any(o["status"] == "fail" for o in c2.obligations):
            return f"tactic{k}"
    return "compose"
