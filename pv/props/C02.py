"""C02 — quotient composed with the divisor refines the dividend."""
from __future__ import annotations

import random

import z3

from .. import build as B
from .. import cshapes as CS
from .. import oracle as O

PROP = "C02"
RULE = (
    "job = (quotient wiring, coefficient patterns of dividend and divisor, additional_inputs, simplify, tactics_order); "
    "all constants symbolic; obligation per returning path: C.a ∧ honours(C1) ∧ honours(Q) ∧ (C1.a or Q.a or C.g broken) unsat"
)
ASSUMPTIONS = [
    "coefficients concrete (enumerated), constants symbolic",
    "linprog = exact LP (any optimal point), sympy.solve = exact row reduction, __str__ of terms stubbed",
    "numerical reading: box 1000, conclusion tolerance 1e-4*(1+|c|), 1e-7 slack on components' own assumptions",
]
BOUNDS = {
    "quick": {"variables": "<=6", "terms": "<=2 assumptions, <=2 guarantees per contract", "alphabet": [-2, -1, 1, 2]},
    "thorough": {"variables": "<=6", "terms": "<=2 assumptions, <=3 guarantees per contract", "alphabet": [-3, -2, -1, 1, 2, 3, 0.5]},
}
OPTS = {"quick": {"tier_budget_s": 240, "max_paths": 2000, "job_budget_s": 60}, "thorough": {"tier_budget_s": 2400, "max_paths": 20000, "job_budget_s": 400}}
REACH = {"quick": ["OK", "IAE", "assumptions-refine:True", "assumptions-refine:False", "additional-inputs"]}

# name: (C ins, C outs, C1 ins, C1 outs, candidates for additional inputs)
QWIRINGS = {
    "series": (["x"], ["z"], ["x"], ["y"], ["x", "y"]),
    "series-rev": (["x"], ["z"], ["y"], ["z"], ["x"]),
    "wide": (["x", "u"], ["z", "v"], ["x"], ["y"], ["x", "u", "y"]),
    "shared-output": (["x"], ["y", "z"], ["x"], ["y"], ["x", "y"]),
    "two-links": (["x"], ["z"], ["x"], ["y", "w"], ["x", "y", "w"]),
    # the divisor owns two of the dividend's outputs and reads a variable the quotient must produce:
    # the dividend's guarantees are refined through chains over both eliminated variables
    "owned-chain": ([], ["v", "w", "x"], ["z"], ["v", "w"], []),
    # dividend and divisor read the same three inputs, which the dividend's assumptions couple: the dividend's
    # guarantee is refined by eliminating all three (Kaykobad matrix of tactic 1)
    "three-shared-inputs": (["y0", "y1", "y2"], ["o"], ["y0", "y1", "y2"], ["w"], ["y0"]),
    # the divisor owns two dividend outputs and ties them to three outputs of its own by a non-symmetric set of rows
    "owned-pair": ([], ["o", "y1", "y2"], [], ["y1", "y2", "w1", "w2", "w3"], ["w1"]),
    # the divisor owns both dividend outputs and bounds a *different* weighted sum of them (tactic 3's ratio)
    "owned-both": (["i"], ["v1", "v2"], ["z"], ["v1", "v2"], []),
    # a divisor that shares nothing with the dividend: whether "C's assumptions refine C1's" must not be answered with
    # the help of C1's own guarantees
    "disjoint": (["i"], ["y"], ["j"], ["x"], ["i", "x"]),
}

CURATED = [
    (
        "circular-divisor",
        "disjoint",
        {"in": ["i"], "out": ["y"], "a": [{"i": 1}], "g": [{"y": 1, "i": -1}]},
        {"in": ["j"], "out": ["x"], "a": [{"j": 1}], "g": [{"j": 1, "x": -1}, {"x": 1}]},
    ),
    (
        "three-shared-inputs",
        "three-shared-inputs",
        {"in": ["y0", "y1", "y2"], "out": ["o"], "a": [{"y0": 1, "y1": 0.6}, {"y1": 1}, {"y1": 0.6, "y2": 1}, {"y1": -1}], "g": [{"o": 1, "y0": 1, "y1": 1, "y2": 1}]},
        {"in": ["y0", "y1", "y2"], "out": ["w"], "a": [], "g": [{"w": 1}]},
    ),
    (
        "owned-pair",
        "owned-pair",
        {"in": [], "out": ["o", "y1", "y2"], "a": [], "g": [{"o": 1, "y1": 1, "y2": 1}]},
        {"in": [], "out": ["y1", "y2", "w1", "w2", "w3"], "a": [], "g": [{"y1": 1, "w1": -1}, {"y1": 1, "y2": -1, "w2": -1}, {"y2": 1, "w3": -1}, {"w1": 1}, {"w2": 1}, {"w3": 1}]},
    ),
    (
        "owned-chain-lower",
        "owned-chain",
        {"in": [], "out": ["v", "w", "x"], "a": [], "g": [{"x": 1, "v": -1}]},
        {"in": ["z"], "out": ["v", "w"], "a": [], "g": [{"w": 1, "z": 1, "v": -1}, {"w": -1}, {"w": 1}]},
    ),
    (
        "owned-chain-upper",
        "owned-chain",
        {"in": [], "out": ["v", "w", "x"], "a": [], "g": [{"v": 1, "x": -1}]},
        {"in": ["z"], "out": ["v", "w"], "a": [], "g": [{"v": 1, "w": -1, "z": -1}, {"w": -1}, {"w": 1}]},
    ),
    # dividend obtained by composing the divisor with a hidden partner (constants freed)
    (
        "from-composition",
        "series",
        {"in": ["x"], "out": ["z"], "a": [{"x": 1}, {"x": -1}], "g": [{"z": 1, "x": -2}, {"z": -1, "x": 2}]},
        {"in": ["x"], "out": ["y"], "a": [{"x": 1}, {"x": -1}], "g": [{"y": 1, "x": -1}, {"y": -1, "x": 1}]},
    ),
    (
        "doc-example",
        "series",
        {"in": ["x"], "out": ["z"], "a": [{"x": 1}], "g": [{"z": 1, "x": -2}]},
        {"in": ["x"], "out": ["y"], "a": [{"x": 1}], "g": [{"y": 1, "x": -1}, {"y": -1, "x": 1}]},
    ),
    (
        "divisor-needs-more",
        "series",
        {"in": ["x"], "out": ["z"], "a": [{"x": 1}], "g": [{"z": 1, "x": -1}]},
        {"in": ["x"], "out": ["y"], "a": [{"x": 1}, {"x": -1}], "g": [{"y": 1, "x": -1}]},
    ),
    (
        "rev",
        "series-rev",
        {"in": ["x"], "out": ["z"], "a": [{"x": 1}], "g": [{"z": 1, "x": -2}, {"z": -1}]},
        {"in": ["y"], "out": ["z"], "a": [{"y": 1}], "g": [{"z": 1, "y": -1}, {"z": -1, "y": 1}]},
    ),
    (
        "shared-output",
        "shared-output",
        {"in": ["x"], "out": ["y", "z"], "a": [{"x": 1}], "g": [{"y": 1, "x": -1}, {"z": 1, "y": -1}]},
        {"in": ["x"], "out": ["y"], "a": [{"x": 1}], "g": [{"y": 1, "x": -1}]},
    ),
]


def jobs(tier, seed):
    rng = random.Random(seed * 7919 + 2)
    out = []
    orders = B.tactic_orders(rng, n_perm=2 if tier == "quick" else 5) + [None]
    for name, w, c, c1 in CURATED:
        cand = QWIRINGS[w][4]
        for add in ([], cand[:1], cand):
            for simp in (True, False):
                for tac in orders:
                    if name in ("three-shared-inputs", "owned-pair") and tac not in (None, [1], [5], [1, 2, 3, 4, 5]):
                        continue  # expensive shapes: the orders that reach tactics 1 and 5 first
                    if tier == "quick" and rng.random() < 0.4:
                        continue
                    out.append({"kind": "curated:" + name, "wiring": w, "c": c, "c1": c1, "add": add, "simplify": simp, "tactics": tac})
    n_rand = 200 if tier == "quick" else 3000
    alphabet = BOUNDS[tier]["alphabet"]
    ws = list(QWIRINGS)
    for i in range(n_rand):
        w = ws[i % len(ws)]
        ci, co, di, do, cand = QWIRINGS[w]
        c = CS.rand_contract(rng, ci, co, alphabet, na=(0, 1, 2))
        c1 = CS.rand_contract(rng, di, do, alphabet, na=(0, 1, 1))
        if w == "three-shared-inputs":
            sgn = rng.choice([-1, 1])
            rows = []
            for r, dv in enumerate(ci):
                row = {dv: 1}
                for v in ci:
                    if v != dv and rng.random() < 0.5:
                        row[v] = rng.choice([0.4, 0.5, 0.6, 0.6, 0.75])
                rows.append({k: sgn * v for k, v in row.items()})
            c = {"in": ci, "out": co, "a": rows + ([{"y1": -sgn}] if rng.random() < 0.5 else []), "g": [dict({v: sgn for v in ci}, o=sgn)]}
            c1 = {"in": di, "out": do, "a": [], "g": [{"w": rng.choice([-1, 1])}]}
        if w == "owned-pair":
            sg = lambda: rng.choice([-1, 1])  # noqa: E731
            s1, s2 = sg(), sg()
            c = {"in": [], "out": co, "a": [], "g": [{"o": 1, "y1": s1 * rng.choice([1, 2]), "y2": s2 * rng.choice([1, 2])}]}
            g1 = [{"y1": s1, "w1": -1}, {"y1": s1, "y2": -s2 * rng.choice([1, 1, 2]), "w2": -1}, {"y2": s2, "w3": -1}, {"w1": 1}, {"w2": 1}, {"w3": 1}]
            if rng.random() < 0.5:
                rng.shuffle(g1)
            c1 = {"in": [], "out": do, "a": [], "g": g1}
        if w == "disjoint" and rng.random() < 0.6:
            sg = rng.choice([1, -1])
            c1 = {"in": di, "out": do, "a": [{"j": sg}], "g": [{"j": sg, "x": -sg}, {"x": sg}] + ([{"x": -sg, "j": sg * 2}] if rng.random() < 0.3 else [])}
        if w == "owned-both":
            sg = rng.choice([1, -1])
            a1, a2, b1, b2 = (rng.choice([1, 2, 3]) for _ in range(4))
            c = {"in": ci, "out": co, "a": [], "g": [{"v1": sg * a1, "v2": sg * a2, "i": -sg}]}
            c1 = {"in": di, "out": do, "a": [], "g": [{"v1": sg * b1, "v2": sg * b2, "z": -sg}] + ([{"v2": sg}] if rng.random() < 0.3 else [])}
        if w == "owned-chain":
            sg = lambda: rng.choice([-2, -1, 1, 2])  # noqa: E731
            c = {"in": [], "out": co, "a": [], "g": [{"x": sg(), "v": sg()}] + ([{"x": sg(), "w": sg()}] if rng.random() < 0.3 else [])}
            c1 = {"in": di, "out": do, "a": [], "g": [{"v": sg(), "w": sg(), "z": sg()}, {"w": sg()}] + ([{"w": sg()}] if rng.random() < 0.7 else []) + ([{"v": sg(), "z": sg()}] if rng.random() < 0.3 else [])}
        add = [v for v in cand if rng.random() < 0.3]
        tac = rng.choice(orders)
        if w == "owned-pair":
            tac = rng.choice([[5, 1, 2, 3, 4], [5], [5, 4], None])
        if w == "three-shared-inputs":
            tac = rng.choice([None, [1], [1, 2, 3, 4, 5], [3]])
        if w == "owned-both":
            tac = rng.choice([None, [3], [3, 1, 2, 4, 5], [1, 2, 3, 4, 5]])
        out.append({"kind": "random:" + w, "wiring": w, "c": c, "c1": c1, "add": add, "simplify": rng.random() < 0.6, "tactics": tac})
    return out


def _quotient(ctx, job, tactics):
    c = B.mk_contract(ctx, job["c"], "c")
    c1 = B.mk_contract(ctx, job["c1"], "d")
    q, used = c.quotient_tactics(c1, [B.Var(n) for n in job["add"]], job["simplify"], None if tactics is None else list(tactics))
    return c, c1, q, used


def run(ctx, job):
    P = B.P()
    real_refines = P.PolyhedralTermList.refines
    seen = []
    if ctx.mode == "sym":

        def spy(self, other):
            r = real_refines(self, other)
            seen.append(bool(r))
            return r

        P.PolyhedralTermList.refines = spy
    try:
        try:
            c, c1, qc, used = _quotient(ctx, job, job["tactics"])
        except ValueError as e:
            return {"cls": B.classify(e)}
        except Exception as e:
            cls = B.classify(e)
            ctx.expect("only-documented-exceptions", False, info=cls + "@" + B.innermost_pacti_frame(e))
            return {"cls": cls}
    finally:
        P.PolyhedralTermList.refines = real_refines
    if seen:
        ctx.tag(f"assumptions-refine:{seen[0]}")
    if job["add"]:
        ctx.tag("additional-inputs")
    for lst in used:
        for num, _, _ in lst:
            ctx.tag("left-as-is" if num in (0, -1) else f"tactic{num}")
    names = O.names_of(c.a, c.g, c1.a, c1.g, qc.a, qc.g)
    ctx.obligation(
        "quotient-sound",
        z3.And(
            O.box(names),
            O.holds(c.a),
            O.honours(c1.a, c1.g),
            O.honours(qc.a, qc.g),
            z3.Or(O.broken(c1.a), O.broken(qc.a), O.broken(c.g)),
        ),
    )
    return {"cls": "OK", "res": qc}


def culprit(job, consts, label, rec):
    if label == "only-documented-exceptions":
        for o in rec["obligations"]:
            if o["label"] == label:
                return o.get("info", "")
    from .. import engine as E
    from ..driver import Ctx

    tactics = job["tactics"] if job["tactics"] is not None else [1, 2, 3, 4, 5]
    for k in tactics:
        order = [t for t in tactics if t != k]
        eng = E.Engine(mode="real")
        c2 = Ctx(eng, witness=consts)
        j2 = dict(job, tactics=order)
        eng.run_real(lambda e: run(c2, j2))
        if not any(o["status"] == "fail" for o in c2.obligations):
            return f"tactic{k}"
    return "quotient"
