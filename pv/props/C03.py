"""C03 — refinement tests decide semantic containment exactly."""
from __future__ import annotations

import random

import z3

from .. import build as B
from .. import cshapes as CS
from .. import lp
from .. import oracle as O

PROP = "C03"
RULE = (
    "job = (left/right coefficient patterns, how right-hand constants relate to left ones: free, shared, scaled, sum); "
    "constants symbolic; answer True must imply containment within tolerance, answer False must imply that exact containment "
    "does not hold (decided through the exact projection of the left polyhedron); every True path is replayed on the real code"
)
ASSUMPTIONS = [
    "coefficients concrete, constants symbolic; right-hand constants may be tied to left-hand ones (shared/scaled/summed)",
    "linprog = exact LP; LP round-off only through replay of dyadic witnesses (where must-True is required of the real code)",
]
BOUNDS = {"quick": {"variables": "<=4", "terms": "<=4 per side", "alphabet": [-2, -1, 1, 2]}, "thorough": {"variables": "<=5", "terms": "<=5 per side", "alphabet": [-3, -2, -1, 1, 2, 3, 0.5]}}
OPTS = {"quick": {"tier_budget_s": 200, "max_paths": 3000, "job_budget_s": 60, "witness_rate": 1.0, "max_pass_replays": 1500, "decimal_witness_rate": 0.5}, "thorough": {"tier_budget_s": 1800, "max_paths": 20000, "job_budget_s": 300, "max_pass_replays": 20000, "decimal_witness_rate": 0.5}}
REACH = {"quick": ["True", "False", "IAE", "kind:reflexive", "kind:farkas-tight", "left-infeasible", "contract", "kind:contract:mismatch", "kind:contract:mismatch-roles"]}


def mk_side(ctx, rows, prefix):
    """rows: list of {"coefs": {...}, "const": None | [[name, mult], ..., offset]}"""
    P = B.P()
    terms = []
    for i, r in enumerate(rows):
        spec = r.get("const")
        if spec is None:
            c = ctx.const(f"{prefix}{i}")
        else:
            c = spec[-1]
            for name, mult in spec[:-1]:
                c = ctx.const(name) * mult + c
        terms.append(P.PolyhedralTerm({B.Var(n): v for n, v in r["coefs"].items()}, c))
    return P.PolyhedralTermList(terms)


def free(rows):
    return [{"coefs": r} for r in rows]


def combo(rows, idx_mults):
    coefs = {}
    const = []
    for i, m in idx_mults:
        for n, v in rows[i].items():
            coefs[n] = coefs.get(n, 0) + m * v
        const.append([f"l{i}", m])
    coefs = {n: v for n, v in coefs.items() if v}
    return coefs, const


def jobs(tier, seed):
    rng = random.Random(seed * 7919 + 3)
    alphabet = BOUNDS[tier]["alphabet"]
    za = alphabet + [0, 0]
    out = []
    n = 120 if tier == "quick" else 2000
    for i in range(n):
        nv = rng.choice([2, 3] if tier == "quick" else [2, 3, 4])
        names = ["x", "y", "z", "w"][:nv]
        nl = rng.choice([1, 2, 3] if tier == "quick" else [2, 3, 4])
        L = [B.rterm(rng, names, za) for _ in range(nl)]
        Ls = free(L)
        # reflexive: same rows, same constants
        out.append({"kind": "reflexive", "L": Ls, "R": [{"coefs": r, "const": [[f"l{j}", 1], 0]} for j, r in enumerate(L)]})
        # sub-list
        k = rng.randrange(nl)
        out.append({"kind": "sublist", "L": Ls, "R": [{"coefs": L[j], "const": [[f"l{j}", 1], 0]} for j in range(nl) if j != k] or [{"coefs": L[0], "const": [["l0", 1], 0]}]})
        # scaling of one row (positive factor), constant scaled alike / free
        f = rng.choice([2, 0.5, 3])
        j = rng.randrange(nl)
        out.append({"kind": "scaled", "L": Ls, "R": [{"coefs": {n_: v * f for n_, v in L[j].items()}, "const": [[f"l{j}", f], 0]}]})
        out.append({"kind": "scaled-free", "L": Ls, "R": [{"coefs": {n_: v * f for n_, v in L[j].items()}}]})
        # Farkas consequence: positive combination; constant exactly tight / free / off by a margin
        if nl >= 2:
            a, b = rng.sample(range(nl), 2)
            coefs, const = combo(L, [(a, rng.choice([1, 2])), (b, rng.choice([1, 1, 2]))])
            if coefs:
                out.append({"kind": "farkas-tight", "L": Ls, "R": [{"coefs": coefs, "const": const + [0]}]})
                out.append({"kind": "farkas-free", "L": Ls, "R": [{"coefs": coefs}]})
                out.append({"kind": "farkas-weaker", "L": Ls, "R": [{"coefs": coefs, "const": const + [rng.choice([0.5, 1, 4])]}]})
                out.append({"kind": "farkas-stronger", "L": Ls, "R": [{"coefs": coefs, "const": const + [-rng.choice([0.5, 1])]}]})
        # unrelated pair
        R = [B.rterm(rng, names, za) for _ in range(rng.choice([1, 2]))]
        out.append({"kind": "unrelated", "L": Ls, "R": free(R)})
        # separated: right row is the negation of a left row
        out.append({"kind": "separated", "L": Ls, "R": [{"coefs": {n_: -v for n_, v in L[j].items()}}]})
        # left has an opposite pair (possibly empty / equality slice)
        Lop = L + [{n_: -v for n_, v in L[0].items()}]
        out.append({"kind": "left-opposite-pair", "L": free(Lop), "R": free(R)})
        # right has an opposite pair (possibly infeasible right side)
        out.append({"kind": "right-opposite-pair", "L": Ls, "R": free([R[0], {n_: -v for n_, v in R[0].items()}])})
        # empty lists
        if i % 10 == 0:
            out.append({"kind": "right-empty", "L": Ls, "R": []})
            out.append({"kind": "left-empty", "L": [], "R": free(R)})
    # contracts
    nc = 80 if tier == "quick" else 1500
    for i in range(nc):
        c1 = CS.rand_contract(rng, ["x"], ["y"], alphabet, na=(0, 1, 2), ng=(1, 2))
        mode = rng.choice(["self", "weaker-a", "random", "needs-assumption", "mismatch", "mismatch-roles", "near-a"])
        if mode == "self":
            c2 = {"share": True}
        elif mode == "near-a":
            # nearly (not exactly) equal bounds on the two sides of a refinement that holds
            if not c1["a"]:
                c1["a"] = [B.rterm(rng, ["x"], alphabet)]
            c2 = {"near_a": True}
        elif mode == "random":
            c2 = CS.rand_contract(rng, ["x"], ["y"], alphabet, na=(0, 1, 2), ng=(1, 2))
        elif mode == "weaker-a":
            c2 = dict(CS.rand_contract(rng, ["x"], ["y"], alphabet, na=(1, 2), ng=(1, 2)), g_share=True)
        elif mode == "needs-assumption":
            # guarantee inclusion holds only under the right side's assumptions
            c1 = {"in": ["x"], "out": ["y"], "a": [], "g": [{"y": 1, "x": -1}]}
            c2 = {"in": ["x"], "out": ["y"], "a": [{"x": 1}], "g": [{"y": 1}]}
        elif mode == "mismatch-roles":
            # the same variable names in different roles
            ins2, outs2 = rng.choice([(["y"], ["x"]), (["x", "y"], []), ([], ["x", "y"])])
            c2 = CS.rand_contract(rng, ins2, outs2, alphabet, ng=(1,)) if outs2 else {"in": ins2, "out": [], "a": [B.rterm(rng, ins2, alphabet)], "g": []}
        else:
            c2 = CS.rand_contract(rng, rng.choice([["x", "u"], ["u"], ["x"]]), rng.choice([["y"], ["z"], ["y", "z"]]), alphabet)
            if c2["in"] == ["x"] and c2["out"] == ["y"]:
                c2["out"] = ["z"]
                c2["g"] = [{"z": 1}]
        out.append({"kind": "contract:" + mode, "c1": c1, "c2": c2, "via": rng.choice(["refines", "le"])})
    # environment / implementation membership
    for i in range(30 if tier == "quick" else 600):
        c = CS.rand_contract(rng, ["x"], ["y"], alphabet, na=(1, 2), ng=(1, 2))
        comp = [B.rterm(rng, ["x"], alphabet) for _ in range(rng.choice([1, 2]))]
        out.append({"kind": "environment", "c": c, "comp": free(comp)})
        comp = [B.rterm(rng, ["x", "y"], za, must=["y"]) for _ in range(rng.choice([1, 2]))]
        out.append({"kind": "implementation", "c": c, "comp": free(comp)})
    return out


def exact_containment(L, R, mode="sym"):
    """Formula over the constants: every point of L satisfies every row of R exactly."""
    names = O.names_of(L, R)
    A, b = O.matrix_of(L, names)
    if not A:
        # L is the whole space: contained only if R has no rows (rows mention >= 1 variable)
        return z3.BoolVal(len(O.rows_of(R)) == 0)
    feas = lp.feasible_formula(A, b)
    empty = z3.Not(feas)
    if mode == "real":
        # the float code decides emptiness of L with HiGHS's tolerances: a left side that is empty or non-empty only
        # by less than 1e-6 (decimal witnesses produce such sets) is outside what a False answer can be blamed for
        solid, empty = lp.feasibility_claims("real", A, b)
        feas = solid
    conj = []
    for coefs, c in O.rows_of(R):
        obj = [coefs.get(n, 0) for n in names]
        _, uppers = lp.max_over(A, b, obj)
        if not uppers:
            conj.append(z3.BoolVal(False))
        else:
            conj.append(z3.Or(*[u <= O.E.toz(c) for u in uppers]))
    return z3.Or(empty, z3.And(feas, *conj))


def check_answer(ctx, ans, pairs, label):
    """pairs: list of (L, R) that must all be contained for True."""
    if ans:
        for i, (L, R) in enumerate(pairs):
            names = O.names_of(L, R)
            ctx.obligation(f"{label}-true-implies-contained", z3.And(O.box(names), O.holds(L), O.broken(R)))
    else:
        ctx.obligation(f"{label}-false-implies-not-exactly-contained", z3.And(*[exact_containment(L, R, ctx.mode) for L, R in pairs]))


def run(ctx, job):
    from pacti.utils.errors import IncompatibleArgsError

    kind = job["kind"]
    ctx.tag("kind:" + kind)
    if kind.startswith("contract:"):
        ctx.tag("contract")
        c1 = B.mk_contract(ctx, job["c1"], "p")
        spec2 = job["c2"]
        if spec2.get("near_a"):
            from pacti.contracts import PolyhedralIoContract

            P_ = B.P()
            # right: the left contract itself; left: additionally *guarantees* each assumption loosened by 2^-14, so that
            # the union (left guarantees | right assumptions) holds two nearly equal bounds
            c2 = PolyhedralIoContract(c1.a.copy(), c1.g.copy(), list(c1.inputvars), list(c1.outputvars), simplify=False)
            loose = [P_.PolyhedralTerm(dict(t.variables), t.constant + 2.0**-14) for t in c1.a.terms]
            c1 = PolyhedralIoContract(c1.a.copy(), P_.PolyhedralTermList(loose + c1.g.copy().terms), list(c1.inputvars), list(c1.outputvars), simplify=False)
            spec2 = {"in": job["c1"]["in"], "out": job["c1"]["out"]}
        elif spec2.get("share"):
            c2 = B.mk_contract(ctx, job["c1"], "p")
        else:
            c2 = B.mk_contract(ctx, spec2, "q")
            if spec2.get("g_share"):
                from pacti.contracts import PolyhedralIoContract

                c2 = PolyhedralIoContract(c2.a, c1.g.copy(), c2.inputvars, c2.outputvars, simplify=False)
        same_io = sorted(job["c1"]["in"]) == sorted(spec2.get("in", job["c1"]["in"])) and sorted(job["c1"]["out"]) == sorted(spec2.get("out", job["c1"]["out"]))
        try:
            ans = c1.refines(c2) if job["via"] == "refines" else (c1 <= c2)
        except IncompatibleArgsError:
            ctx.expect("IAE-only-for-different-interfaces", not same_io)
            return {"cls": "IAE"}
        except Exception as e:
            ctx.expect("only-documented-exceptions", False, info=B.classify(e) + "@" + B.innermost_pacti_frame(e))
            return {"cls": B.classify(e)}
        ctx.expect("different-interfaces-raise", same_io)
        ans = bool(ans)
        P = B.P()
        pairs = [(c2.a, c1.a), (P.PolyhedralTermList(c1.g.terms + c2.a.terms), P.PolyhedralTermList(c2.g.terms + c2.a.terms))]
        check_answer(ctx, ans, pairs, "contract")
        return {"cls": str(ans), "res": {"cmp": ans}}
    if kind in ("environment", "implementation"):
        c = B.mk_contract(ctx, job["c"], "p")
        comp = mk_side(ctx, job["comp"], "m")
        P = B.P()
        try:
            if kind == "environment":
                ans = bool(c.contains_environment(comp))
                pairs = [(comp, c.a)]
            else:
                ans = bool(c.contains_implementation(comp))
                pairs = [(P.PolyhedralTermList(comp.terms + c.a.terms), P.PolyhedralTermList(c.g.terms + c.a.terms))]
        except Exception as e:
            ctx.expect("only-documented-exceptions", False, info=B.classify(e) + "@" + B.innermost_pacti_frame(e))
            return {"cls": B.classify(e)}
        check_answer(ctx, ans, pairs, kind)
        return {"cls": str(ans), "res": {"cmp": ans}}
    L = mk_side(ctx, job["L"], "l")
    R = mk_side(ctx, job["R"], "r")
    try:
        ans = bool(L.refines(R))
    except Exception as e:
        ctx.expect("only-documented-exceptions", False, info=B.classify(e) + "@" + B.innermost_pacti_frame(e))
        return {"cls": B.classify(e)}
    if ctx.mode == "sym" and L.terms:
        names = O.names_of(L)
        A, b = O.matrix_of(L, names)
        if ctx.provable(z3.Not(lp.feasible_formula(A, b))):
            ctx.tag("left-infeasible")
    if not R.terms:
        ctx.expect("anything-refines-no-constraints", ans is True)
    elif not L.terms:
        ctx.expect("no-constraints-refines-nothing-constrained", ans is False)
    else:
        check_answer(ctx, ans, [(L, R)], "list")
    return {"cls": str(ans), "res": {"cmp": ans}}


def culprit(job, consts, label, rec):
    return "refines"
