"""C04 — variable elimination is implication-preserving for every tactic order.

Runs PolyhedralTermList.elim_vars_by_refining / elim_vars_by_relaxing (and everything
below: _transform, _transform_term, tactics 1-5, simplify, reduce_polytope, ...) with
every constant of the term list and of the context symbolic.
"""
from __future__ import annotations

import random

import z3

from .. import build as B
from .. import oracle as O

PROP = "C04"
RULE = (
    "job = (term-list coefficient pattern, context pattern, eliminated variables, refine|relax, simplify flag, "
    "tactics_order); constants of all terms are symbolic reals; every feasible path of the real code is one state; "
    "the obligation on each path is an SMT query over all constants and all points"
)
ASSUMPTIONS = [
    "coefficients are concrete (enumerated), constants symbolic",
    "linprog is an exact LP solver returning any optimal point (stub S1); HiGHS tolerances only through replay",
    "sympy.solve on linear systems behaves as exact row reduction (stub S2); checked by replay",
    "PolyhedralTerm/TermList.__str__ replaced by constants (eager %-formatting in tactics)",
    "the context is a plain hypothesis (no slack); conclusions are broken only beyond 1e-4*(1+|c|) inside the box |v|<=1000",
]
BOUNDS = {
    "quick": {"variables": "<=4", "terms": "<=3 + <=3 context", "alphabet": [-2, -1, 1, 2], "tactic_orders": "singletons, default, [], seeded permutations"},
    "thorough": {"variables": "<=5", "terms": "<=4 + <=4 context", "alphabet": [-3, -2, -1, 1, 2, 3, 0.5], "tactic_orders": "singletons, default, [], seeded permutations"},
}
OPTS = {"quick": {"tier_budget_s": 240, "max_paths": 3000, "job_budget_s": 60}, "thorough": {"tier_budget_s": 2400, "max_paths": 20000, "job_budget_s": 300}}
REACH = {"quick": ["OK", "VE", "tactic1", "tactic2", "tactic3", "tactic4", "tactic5", "left-as-is"]}


def jobs(tier, seed):
    rng = random.Random(seed * 7919 + 4)
    out = []
    # family A (bounded-exhaustive): 1 term over (x,y), 1 context term over (x,y), eliminate x
    alpha = [-1, 0, 1, 2]
    terms = [t for t in B.all_terms(["x", "y"], alpha) if "x" in t]
    ctxs = B.all_terms(["x", "y"], alpha)
    orders_small = [[1], [2], [3], [4], [5], [1, 2, 3, 4, 5]]
    for t in terms:
        for c in ctxs:
            for refine in (True, False):
                for order in orders_small:
                    if tier == "quick" and rng.random() > 0.25:
                        continue
                    out.append({"kind": "A-exh-1x1", "terms": [t], "ctx": [c], "elim": ["x"], "refine": refine, "simplify": rng.random() < 0.5, "tactics": order})
    # family B: curated situations named in the property text
    curated = [
        # context bounds the variable in the wrong direction
        dict(terms=[{"x": 1, "y": 1}], ctx=[{"x": 1}], elim=["x"]),
        dict(terms=[{"x": 1, "y": 1}], ctx=[{"x": -1}], elim=["x"]),
        dict(terms=[{"x": -1, "y": 1}], ctx=[{"x": 1}, {"x": -1}], elim=["x"]),
        # chains through other eliminated variables
        dict(terms=[{"x": 1, "z": 1}], ctx=[{"x": -1, "y": 1}, {"y": -1, "w": 1}], elim=["x", "y"]),
        dict(terms=[{"x": 1, "z": 1}], ctx=[{"x": 1, "y": -1}, {"y": 1, "w": -1}], elim=["x", "y"]),
        dict(terms=[{"x": -1, "z": 1}], ctx=[{"x": 1, "y": 1}, {"y": -1}], elim=["x", "y"]),
        # degenerate LP optima: duplicate / parallel context rows
        dict(terms=[{"x": 1, "y": 1}], ctx=[{"x": -1}, {"x": -1}, {"x": -2}], elim=["x"]),
        dict(terms=[{"x": 1, "y": 1, "z": 1}], ctx=[{"x": -1, "y": -1}, {"x": -1}, {"y": -1}], elim=["x", "y"]),
        # two eliminated variables in one term, Kaykobad matrix
        dict(terms=[{"x": 2, "y": 1, "z": 1}], ctx=[{"x": -2, "y": 1, "w": 1}, {"x": 1, "y": -2, "w": 1}], elim=["x", "y"]),
        dict(terms=[{"x": 1, "y": 1, "z": 1}], ctx=[{"x": -2, "w": 1}, {"y": -2, "w": 1}], elim=["x", "y"]),
        # several terms helping each other
        dict(terms=[{"x": 1, "z": 1}, {"x": -1, "z": -1}, {"x": 1}], ctx=[{"x": -1, "w": 1}], elim=["x"]),
        dict(terms=[{"x": 1, "z": 1}, {"y": 1, "z": -1}], ctx=[{"x": -1, "w": 1}, {"y": -1, "w": -1}], elim=["x", "y"]),
        # pure-eliminated-variable terms (tactic 2 domain)
        dict(terms=[{"x": 1, "z": 1}], ctx=[{"x": 1}, {"x": -1}], elim=["x"]),
        dict(terms=[{"x": 1, "y": -1, "z": 1}], ctx=[{"x": 1, "y": 1}, {"x": -1}, {"y": -1}, {"x": 1, "y": -1}], elim=["x", "y"]),
        # more eliminated variables than usable rows
        dict(terms=[{"x": 1, "y": 1, "z": 1}], ctx=[{"x": -1, "w": 1}], elim=["x", "y"]),
        # empty context
        dict(terms=[{"x": 1, "z": 1}], ctx=[], elim=["x"]),
    ]
    orders = B.tactic_orders(rng, n_perm=2 if tier == "quick" else 6)
    for sh in curated:
        for refine in (True, False):
            for simp in (True, False):
                for order in orders:
                    out.append({"kind": "B-curated", **sh, "refine": refine, "simplify": simp, "tactics": order})
    # family D: chains for the recursive branch of tactic 4 (several eliminated variables,
    # each context row links two of them), both signs of every coefficient
    n_chain = 60 if tier == "quick" else 600
    for _ in range(n_chain):
        sg = lambda: rng.choice([-2, -1, 1, 2])  # noqa: E731
        depth = rng.choice([2, 2, 3])
        ev = ["x", "y", "u"][:depth]
        term = {"x": sg(), "z": sg()}
        cx = []
        for i in range(depth - 1):
            row = {ev[i]: sg(), ev[i + 1]: sg()}
            if rng.random() < 0.5:
                row["w"] = sg()
            cx.append(row)
        last = {ev[-1]: sg()}
        if rng.random() < 0.7:
            last["w"] = sg()
        cx.append(last)
        if rng.random() < 0.4:
            cx.append({ev[-1]: sg(), "w": sg()})
        rng.shuffle(cx)
        extra_terms = [B.rterm(rng, ev + ["z", "w"], [-1, 0, 0, 1, 2])] if rng.random() < 0.3 else []
        out.append({"kind": "D-chain", "terms": [term] + extra_terms, "ctx": cx, "elim": ev, "refine": True, "simplify": rng.random() < 0.5, "tactics": rng.choice([[4], [4], [1, 4], [4, 5]])})
    # family E: one term with 2-3 eliminated variables and a context of 2-4 rows coupling them (the domain of
    # the Kaykobad test of tactics 1/3 and of tactic 5's row selection at degenerate optima). Context signs on the
    # eliminated variables follow the pattern each tactic requires (same sign as the term for refining, opposite
    # for relaxing), perturbed now and then; magnitudes decide diagonal dominance.
    n_kay = 220 if tier == "quick" else 2500
    for i in range(n_kay):
        k = 2 if i % 3 else 3
        ev = ["x", "y", "u"][:k]
        refine = rng.random() < 0.5
        term = {v: rng.choice([-3, -2, -1, 1, 2, 3]) for v in ev}
        term["z"] = rng.choice([-2, -1, 1, 2])
        nrows = rng.choice([k, k, k + 1, k + 2])
        cx = []
        for r in range(nrows):
            row = {}
            for v in ev:
                if rng.random() < 0.25:
                    continue
                sgn = (1 if term[v] > 0 else -1) * (1 if refine else -1)
                if rng.random() < 0.1:
                    sgn = -sgn
                row[v] = sgn * rng.choice([0.5, 1, 1, 2, 3])
            if not row:
                row[ev[r % k]] = (1 if term[ev[r % k]] > 0 else -1) * (1 if refine else -1)
            if rng.random() < 0.6:
                row["w"] = rng.choice([-2, -1, 1, 2])
            cx.append(row)
        order = rng.choice([[1], [1], [3], [5], [5], [5, 1], [1, 5], [1, 2, 3, 4, 5], [5, 4, 3, 2, 1]])
        out.append({"kind": f"E-coupled-{k}", "terms": [term], "ctx": cx, "elim": ev, "refine": refine, "simplify": rng.random() < 0.4, "tactics": order})
    # family F: three coupled eliminated variables, context rows with unit diagonal and off-diagonal weights around
    # one half, so that the accumulated Kaykobad dominance sums straddle 1 (the boundary of tactic 1/3's acceptance)
    n_dom = 400 if tier == "quick" else 3000
    for i in range(n_dom):
        ev = ["x", "y", "u"]
        refine = rng.random() < 0.5
        term = {v: rng.choice([-1, 1]) for v in ev}
        term["z"] = rng.choice([-1, 1])
        cx = []
        for r, dv in enumerate(ev):
            row = {}
            for v in ev:
                sgn = (1 if term[v] > 0 else -1) * (1 if refine else -1)
                if v == dv:
                    row[v] = sgn
                elif rng.random() < 0.55:
                    row[v] = sgn * rng.choice([0.4, 0.5, 0.6, 0.6, 0.75])
            row[rng.choice(["w", "w", "a", "b"])] = rng.choice([-1, 1])
            cx.append(row)
        if rng.random() < 0.3:
            rng.shuffle(cx)
        out.append({"kind": "F-dominance-3", "terms": [term], "ctx": cx, "elim": ev, "refine": refine, "simplify": False, "tactics": rng.choice([[1], [1], [3], [1, 2, 3, 4, 5]])})
    # family G: tactic 5 on two eliminated variables with a non-symmetric selection matrix: three or four context rows
    # with small integer coefficients on (x, y), each row with its own kept variable (so rows can be tight together at a
    # degenerate optimum when their constants tie), tactic 5 tried first
    n_asym = 260 if tier == "quick" else 3000
    for i in range(n_asym):
        refine = rng.random() < 0.5
        term = {"x": rng.choice([-2, -1, 1, 2]), "y": rng.choice([-2, -1, 1, 2]), "z": rng.choice([-1, 1])}
        cx = []
        for r in range(rng.choice([3, 3, 4])):
            row = {}
            while not row:
                row = {v: c for v, c in (("x", rng.choice([-1, 0, 1, 1, 2])), ("y", rng.choice([-2, -1, 0, 1, 1]))) if c}
            sg = 1 if refine else -1
            row = {v: sg * (c if (term[v] > 0) else -c) for v, c in row.items()}
            if rng.random() < 0.7:
                row[f"k{r}"] = -1
            cx.append(row)
        if rng.random() < 0.5:
            cx.append({"k0": 1})
        out.append({"kind": "G-tactic5-asym", "terms": [term], "ctx": cx, "elim": ["x", "y"], "refine": refine, "simplify": rng.random() < 0.3, "tactics": rng.choice([[5], [5], [5, 1, 2, 3, 4], [5, 4]])})
    # family H: tactic 2 on two or three eliminated variables: the context constrains only eliminated variables, listed so
    # that their order of first appearance differs from the order in which they are to be eliminated
    n_t2 = 160 if tier == "quick" else 2000
    for i in range(n_t2):
        k = rng.choice([2, 2, 3])
        ev = ["x", "y", "u"][:k]
        term = {v: rng.choice([-2, -1, 1, 2, 3]) for v in ev}
        term["z"] = rng.choice([-1, 1])
        order_in_ctx = list(ev)
        rng.shuffle(order_in_ctx)
        cx = []
        for r in range(rng.choice([k, k + 1, k + 2])):
            row = {}
            for v in order_in_ctx:
                c = rng.choice([-1, 0, 1, 1])
                if c:
                    row[v] = c
            if not row:
                row[order_in_ctx[0]] = 1
            cx.append(row)
        elim = list(reversed(ev)) if rng.random() < 0.5 else ev
        out.append({"kind": "H-tactic2-multi", "terms": [term], "ctx": cx, "elim": elim, "refine": rng.random() < 0.5, "simplify": rng.random() < 0.3, "tactics": rng.choice([[2], [2], [2, 1], [1, 2, 3, 4, 5]])})
    # family C: seeded random shapes
    n_rand = 150 if tier == "quick" else 2500
    alphabet = BOUNDS[tier]["alphabet"]
    zero_alpha = alphabet + [0, 0, 0]
    for _ in range(n_rand):
        nv = rng.choice([3, 4] if tier == "quick" else [3, 4, 5])
        names = ["x", "y", "z", "w", "u"][:nv]
        ne = rng.choice([1, 1, 2])
        elim = names[:ne]
        nt = rng.choice([1, 1, 2, 3] if tier == "quick" else [1, 2, 3, 4])
        nc = rng.choice([1, 2, 3] if tier == "quick" else [1, 2, 3, 4])
        terms = [B.rterm(rng, names, zero_alpha, must=elim if i == 0 else None) for i in range(nt)]
        cx = [B.rterm(rng, names, zero_alpha, must=elim if rng.random() < 0.8 else None) for _ in range(nc)]
        order = rng.choice(orders)
        out.append({"kind": "C-random", "terms": terms, "ctx": cx, "elim": elim, "refine": rng.random() < 0.5, "simplify": rng.random() < 0.5, "tactics": order})
    # family I: a term that agrees with a context row up to the sixth digit of one coefficient (simplify=True first
    # removes from the list what the context "already contains": nearly equal is not equal)
    for _ in range(24 if tier == "quick" else 400):
        row = B.rterm(rng, ["x", "y"], [-2, -1, 1, 2])
        near = dict(row)
        k0 = rng.choice(sorted(near))
        near[k0] = near[k0] * (1 + 8e-6)
        sg = rng.choice([1, -1])
        t_elim = {"z": sg, rng.choice(["x", "y"]): rng.choice([-1, 1])}
        cx = [row, {"z": -sg}] + ([{"z": sg}] if rng.random() < 0.5 else [])
        terms = [near, t_elim]
        rng.shuffle(terms)
        out.append({"kind": "I-near-context", "terms": terms, "ctx": cx, "elim": ["z"], "refine": rng.random() < 0.7, "simplify": True, "tactics": rng.choice([[1, 2, 3, 4, 5], [1], [2], [5]])})
    return out


def _call(ctx, job, tactics):
    tl = B.mk_tl(ctx, job["terms"], "t")
    cx = B.mk_tl(ctx, job["ctx"], "c")
    elim = [B.Var(n) for n in job["elim"]]
    if job["refine"]:
        new, used = tl.elim_vars_by_refining(cx, elim, simplify=job["simplify"], tactics_order=list(tactics))
    else:
        new, used = tl.elim_vars_by_relaxing(cx, elim, simplify=job["simplify"], tactics_order=list(tactics))
    return tl, cx, new, used


def run(ctx, job):
    try:
        tl, cx, new, used = _call(ctx, job, job["tactics"])
    except ValueError as e:
        return {"cls": B.classify(e)}
    except Exception as e:
        cls = B.classify(e)
        ctx.expect("only-documented-exceptions", False, info=cls + "@" + B.innermost_pacti_frame(e))
        return {"cls": cls}
    names = O.names_of(tl, cx, new)
    for num, _, _ in used:
        ctx.tag("left-as-is" if num in (0, -1) else f"tactic{num}")
    ctx.expect("tactic-numbers", all(n in (-1, 0, 1, 2, 3, 4, 5, 6) for n, _, _ in used))
    if job["refine"]:
        ctx.obligation("refine-implies-original", z3.And(O.box(names), O.holds(cx), O.holds(new), O.broken(tl)))
    else:
        ctx.obligation("relax-implied-by-original", z3.And(O.box(names), O.holds(cx), O.holds(tl), O.broken(new)))
        left = [v.name for v in new.vars if v.name in job["elim"]]
        ctx.expect("relax-result-lacks-eliminated-vars", not left, info=str(left))
    return {"cls": "OK", "res": new}


def culprit(job, consts, label, rec):
    """Which tactic produced the offending result: re-run with each tactic removed."""
    if label == "only-documented-exceptions":
        for o in rec["obligations"]:
            if o["label"] == label:
                return o.get("info", "")
    from ..driver import Ctx
    from .. import engine as E

    cured = []
    for k in job["tactics"]:
        order = [t for t in job["tactics"] if t != k]
        eng = E.Engine(mode="real")
        c2 = Ctx(eng, witness=consts)
        j2 = dict(job, tactics=order)
        out = eng.run_real(lambda e: run(c2, j2))
        if not any(o["status"] == "fail" for o in c2.obligations):
            cured.append(k)
    mode = "refine" if job["refine"] else "relax"
    if len(cured) >= 1:
        return f"tactic{cured[0]}-{mode}"
    return f"elimination-{mode}"
