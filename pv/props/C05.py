"""C05 — the algebra layer is sound for any constraint domain meeting the primitive specs."""
from __future__ import annotations

import random

import z3

from .. import abstract
from .. import build as B
from .. import topo as T

PROP = "C05"
RULE = (
    "job = (operation, interface topology over <=3 variables, mention pattern of each constraint list, kept/additional "
    "variables, optional term shared by both operands); constraint contents are uninterpreted predicates (z3 Bools at one "
    "arbitrary behaviour); every outcome of every primitive call (ValueError, leftover, fresh result with/without context "
    "variables, simplify drops, refines True/False) is a solver-decided fork constrained only by the documented contract; "
    "obligation per returning path: the propositional form of C01 / C02 / C08"
)
ASSUMPTIONS = [
    "primitive contracts as documented in TermList's docstrings, instantiated at one arbitrary behaviour (sound because all are pointwise implications)",
    "a fresh result of an elimination mentions the non-eliminated variables of the old term, optionally plus the context's",
    "relax-elimination returns no term that mentions an eliminated variable (documented)",
]
BOUNDS = {"quick": {"variables": 3, "terms per list": "<=2", "topologies": "seeded sample of the 120 multisets + curated"}, "thorough": {"variables": "3 (all 120 multisets) and 4 (sample)", "terms per list": "<=2"}}
OPTS = {"quick": {"tier_budget_s": 220, "max_paths": 6000, "job_budget_s": 50, "witness_rate": 0.05, "max_pass_replays": 300}, "thorough": {"tier_budget_s": 2400, "max_paths": 60000, "job_budget_s": 400, "witness_rate": 0.02, "max_pass_replays": 3000}}
REACH = {"quick": ["OK", "IAE", "VE", "op:compose", "op:quotient", "op:merge", "prim:refine", "prim:relax", "prim:simplify", "prim:refines"]}


def jobs(tier, seed):
    rng = random.Random(seed * 7919 + 5)
    out = []
    topos3 = T.topologies(3)
    # curated: cascade, feedback-free, shared input, quotient series
    curated = [
        ("compose", (("i", "-"), ("o", "i"), ("-", "o"))),
        ("compose", (("i", "i"), ("o", "-"), ("-", "o"))),
        ("compose", (("i", "o"), ("o", "i"), ("i", "-"))),
        ("compose", (("o", "i"), ("o", "i"), ("-", "o"))),
        # the second operand drives the first (other_helps_self): v1 is produced by c2 and consumed by c1
        ("compose", (("i", "-"), ("i", "o"), ("o", "-"))),
        ("compose", (("i", "i"), ("i", "o"), ("o", "-"))),
        ("compose", (("-", "i"), ("i", "o"), ("o", "-"))),
        ("quotient", (("i", "i"), ("o", "-"), ("-", "o"))),
        ("quotient", (("i", "-"), ("o", "o"), ("-", "i"))),
        ("quotient", (("i", "i"), ("o", "o"), ("o", "-"))),
        ("merge", (("i", "i"), ("o", "o"), ("o", "-"))),
        ("merge", (("i", "i"), ("o", "-"), ("-", "o"))),
    ]
    chosen = [(op, tp, "full") for op, tp in curated] + [(op, tp, "per-var") for op, tp in curated[:7]]
    sample = topos3 if tier == "thorough" else rng.sample(topos3, 36)
    for tp in sample:
        for op in ("compose", "quotient", "merge"):
            if tier == "quick" and rng.random() < 0.5:
                continue
            chosen.append((op, tp, rng.choice(["full", "full", "seeded", "per-var"])))
    if tier == "thorough":
        for tp in rng.sample(T.topologies(4), 150):
            chosen.append((rng.choice(["compose", "quotient", "merge"]), tp, rng.choice(["full", "seeded"])))
    for op, tp, style in chosen:
        i1, o1 = T.interface(tp, 0)
        i2, o2 = T.interface(tp, 1)
        a1, g1 = T.mention_patterns(i1, o1, style, rng)
        a2, g2 = T.mention_patterns(i2, o2, style, rng)
        keep, add = [], []
        if op == "compose":
            internal = [v for v in o1 if v in i2] + [v for v in o2 if v in i1]
            if internal and rng.random() < 0.4:
                keep = [internal[0]]
        if op == "quotient":
            cand = [v for v in o2 + i1]
            if cand and rng.random() < 0.4:
                add = [rng.choice(cand)]
        alias = bool(g1 and g2 and set(g1[0]) <= set(i2 + o2) and rng.random() < 0.3)
        out.append({"kind": f"{op}:{style}", "op": op, "topo": [list(p) for p in tp], "lists": {"a1": a1, "g1": g1, "a2": a2, "g2": g2}, "keep": keep, "add": add, "alias": alias})
    return out


def build(ctx, job, mode):
    from pacti.iocontract import IoContract, Var

    ATerm, ATermList, conj = abstract.make(ctx, mode)
    tp = job["topo"]
    i1, o1 = T.interface(tp, 0)
    i2, o2 = T.interface(tp, 1)
    V = lambda ns: [Var(n) for n in ns]  # noqa: E731
    L = job["lists"]
    a1 = ATermList([ATerm(V(t)) for t in L["a1"]])
    g1 = ATermList([ATerm(V(t)) for t in L["g1"]])
    a2 = ATermList([ATerm(V(t)) for t in L["a2"]])
    g2terms = [ATerm(V(t)) for t in L["g2"]]
    if job.get("alias") and g1.terms:
        g2terms.append(g1.terms[0].copy())  # the same term object identity (uid) in both operands
    g2 = ATermList(g2terms)
    c1 = IoContract(a1, g1, V(i1), V(o1), simplify=False)
    c2 = IoContract(a2, g2, V(i2), V(o2), simplify=False)
    return c1, c2, conj, ATermList


def run(ctx, job):
    ctx.scripted = True
    from pacti.iocontract import Var
    from pacti.utils.errors import IncompatibleArgsError

    ctx.tag("op:" + job["op"])
    try:
        c1, c2, conj, ATermList = build(ctx, job, "adversarial")
    except IncompatibleArgsError:
        return {"cls": "operand-IAE"}
    hon = lambda c: z3.Implies(conj(c.a), conj(c.g))  # noqa: E731
    try:
        if job["op"] == "compose":
            r, _ = c1.compose_tactics(c2, [Var(v) for v in job["keep"]], True, [])
        elif job["op"] == "quotient":
            r, _ = c1.quotient_tactics(c2, [Var(v) for v in job["add"]], True, [])
        else:
            r = c1.merge(c2)
    except ValueError as e:
        for p in set(ATermList.calls):
            ctx.tag("prim:" + p)
        return {"cls": B.classify(e)}
    except Exception as e:
        ctx.expect("only-documented-exceptions", False, info=B.classify(e) + "@" + B.innermost_pacti_frame(e))
        return {"cls": B.classify(e)}
    for p in set(ATermList.calls):
        ctx.tag("prim:" + p)
    if job["op"] == "compose":
        ctx.obligation("abstract-composition-sound", z3.And(conj(r.a), hon(c1), hon(c2), z3.Not(z3.And(conj(c1.a), conj(c2.a), conj(r.g)))))
    elif job["op"] == "quotient":
        ctx.obligation("abstract-quotient-sound", z3.And(conj(c1.a), hon(c2), hon(r), z3.Not(z3.And(conj(c2.a), conj(r.a), conj(c1.g)))))
    else:
        both_a = z3.And(conj(c1.a), conj(c2.a))
        both_g = z3.And(conj(c1.g), conj(c2.g))
        ctx.obligation("abstract-merge-assumptions", z3.Xor(conj(r.a), both_a))
        ctx.obligation("abstract-merge-guarantees", z3.Xor(z3.And(conj(r.a), conj(r.g)), z3.And(conj(r.a), both_g)))
    return {"cls": "OK", "res": {"cmp": [[v.name for v in r.inputvars], [v.name for v in r.outputvars], len(r.a.terms), len(r.g.terms)]}}


def culprit(job, consts, label, rec):
    return job["op"]
