"""C06 — results are well formed with the prescribed interface; bad interfaces are rejected."""
from __future__ import annotations

import random

import z3

from .. import abstract
from .. import build as B
from .. import topo as T
from . import C05

PROP = "C06"
RULE = (
    "job = (operation, interface topology: every multiset of role pairs over N variables, mention pattern); vars_to_keep / "
    "additional_inputs are symbolic subsets of all variables (forks), so illegal requests are generated too; primitive "
    "outcomes: obedient (full elimination) on every topology, adversarial (all outcomes incl. leftovers and ValueError) on "
    "the 3-variable family; per path a differential comparison with a reference model of the prescribed interface algebra "
    "written from the property text, plus well-formedness of every returned contract"
)
ASSUMPTIONS = [
    "constraint contents abstract (variable sets + uninterpreted truth), primitives nondeterministic within their documented contracts",
    "the solver's role here is path pruning and the quantification over primitive outcomes / request subsets; the interface comparison on each path is a concrete set comparison",
]
BOUNDS = {"quick": {"variables": "3 exhaustive (120 topologies x 3 operations), 4 sampled", "mention patterns": "full / none / seeded"}, "thorough": {"variables": "3 and 4 exhaustive (120 + 330 topologies), 5 sampled", "mention patterns": "full / none / seeded / per-var"}}
OPTS = {"quick": {"tier_budget_s": 230, "max_paths": 8000, "job_budget_s": 50, "witness_rate": 0.03, "max_pass_replays": 300}, "thorough": {"tier_budget_s": 2400, "max_paths": 60000, "job_budget_s": 400, "witness_rate": 0.01, "max_pass_replays": 3000}}
REACH = {"quick": ["OK", "IAE", "op:compose", "op:quotient", "op:merge", "op:rename", "op:copy", "op:ctor", "op:refines", "mode:adversarial", "mode:obedient", "mode:polyhedral", "illegal-request-rejected"]}


def jobs(tier, seed):
    rng = random.Random(seed * 7919 + 6)
    out = []
    fam = [(3, T.topologies(3))]
    if tier == "thorough":
        fam.append((4, T.topologies(4)))
        fam.append((5, rng.sample(T.topologies(5), 200)))
    else:
        fam.append((4, rng.sample(T.topologies(4), 60)))
    for n, tps in fam:
        for tp in tps:
            for op in ("compose", "quotient", "merge"):
                style = rng.choice(["full", "full", "none", "seeded"] + (["per-var"] if tier == "thorough" else []))
                i1, o1 = T.interface(tp, 0)
                i2, o2 = T.interface(tp, 1)
                a1, g1 = T.mention_patterns(i1, o1, style, rng)
                a2, g2 = T.mention_patterns(i2, o2, style, rng)
                mode = "adversarial" if (n == 3 and rng.random() < 0.35) else "obedient"
                out.append({"kind": f"{op}:{n}vars:{mode}", "op": op, "mode": mode, "topo": [list(p) for p in tp], "lists": {"a1": a1, "g1": g1, "a2": a2, "g2": g2}, "alias": False})
    # feedback where only ONE side's assumptions constrain a driven input (each of the two guard conditions alone)
    cyc = [["i", "o"], ["o", "i"], ["i", "-"], ["-", "i"]]  # v0: q drives p; v1: p drives q; v2: input of p; v3: input of q
    for a1, a2 in ((["v2"], ["v1"]), (["v0"], ["v3"]), (["v2"], ["v1", "v3"]), (["v0", "v2"], ["v3"]), (["v2"], ["v3"])):
        for mode in ("obedient", "adversarial", "adversarial"):
            lists = {"a1": [a1], "g1": [["v1", "v2"]], "a2": [a2], "g2": [["v0", "v3"]]}
            out.append({"kind": f"compose:feedback-one-sided:{mode}", "op": "compose", "mode": mode, "topo": cyc, "lists": lists, "alias": False})
            # the same pair in the other call order
            swapped = [[b, a] for a, b in cyc]
            lists2 = {"a1": [a2], "g1": [["v0", "v3"]], "a2": [a1], "g2": [["v1", "v2"]]}
            out.append({"kind": f"compose:feedback-one-sided:{mode}", "op": "compose", "mode": mode, "topo": swapped, "lists": lists2, "alias": False})
    # single-contract operations: constructor with ill-formed arguments, rename, copy, refines across interfaces
    for tp in T.topologies(3):
        i1, o1 = T.interface(tp, 0)
        a1, g1 = T.mention_patterns(i1, o1, "full", rng)
        base = {"topo": [list(p) for p in tp], "lists": {"a1": a1, "g1": g1, "a2": [], "g2": []}, "alias": False, "mode": "obedient"}
        out.append(dict(base, kind="ctor", op="ctor", fault=rng.choice(["dup-input", "dup-output", "overlap", "a-mentions-output", "g-mentions-foreign", "none"])))
        out.append(dict(base, kind="rename", op="rename"))
        out.append(dict(base, kind="copy", op="copy"))
        out.append(dict(base, kind="refines", op="refines"))
    # the same interface rules in the polyhedral domain (real eliminations, symbolic constants): a sample of the
    # quotient jobs of C02 and the composition jobs of C01, both simplify settings
    from . import C01, C02

    npoly = 24 if tier == "quick" else 300
    for mod, op in ((C02, "quotient"), (C01, "compose")):
        js = [j for j in mod.jobs("quick", seed) if j["wiring"] not in ("three-shared-inputs", "owned-pair", "three-links", "degenerate-vertex")]
        for j in rng.sample(js, min(npoly, len(js))):
            out.append({"kind": "poly:" + op, "op": "poly", "mode": "polyhedral", "sub": op, "job": dict(j, simplify=rng.random() < 0.5), "topo": [], "lists": {}, "alias": False})
    return out


def well_formed(ctx, c, label):
    ins = [v.name for v in c.inputvars]
    outs = [v.name for v in c.outputvars]
    ok = len(ins) == len(set(ins)) and len(outs) == len(set(outs)) and not (set(ins) & set(outs))
    ok = ok and set(v.name for v in c.a.vars) <= set(ins) and set(v.name for v in c.g.vars) <= set(ins) | set(outs)
    ctx.expect(label + "result-well-formed", ok, info=f"in={ins} out={outs} a={[v.name for v in c.a.vars]} g={[v.name for v in c.g.vars]}")
    return ins, outs


def run_poly(ctx, job):
    """Quotient / composition of polyhedral contracts: result and operands well formed, interface as prescribed."""
    from pacti.utils.errors import IncompatibleArgsError

    j = job["job"]
    ctx.tag("op:" + job["sub"])
    ctx.tag("mode:polyhedral")
    if job["sub"] == "quotient":
        c1 = B.mk_contract(ctx, j["c"], "c")
        c2 = B.mk_contract(ctx, j["c1"], "d")
        request = list(j["add"])
    else:
        c1 = B.mk_contract(ctx, j["c1"], "c1")
        c2 = B.mk_contract(ctx, j["c2"], "c2")
        if j["order"] == "21":
            c1, c2 = c2, c1
        request = list(j["keep"])
    ifc = [([v.name for v in c.inputvars], [v.name for v in c.outputvars]) for c in (c1, c2)]
    (i1, o1), (i2, o2) = ifc
    tac = None if j["tactics"] is None else list(j["tactics"])
    ref = T.ref_quotient(i1, o1, i2, o2, request) if job["sub"] == "quotient" else T.ref_compose(i1, o1, i2, o2, request)
    try:
        if job["sub"] == "quotient":
            r, _ = c1.quotient_tactics(c2, [B.Var(n) for n in request], j["simplify"], tac)
        else:
            r, _ = c1.compose_tactics(c2, [B.Var(n) for n in request], j["simplify"], tac)
    except IncompatibleArgsError:
        cls = "IAE"
    except ValueError:
        cls = "VE"
    except Exception as e:
        ctx.expect("only-documented-exceptions", False, info=B.classify(e) + "@" + B.innermost_pacti_frame(e))
        return {"cls": B.classify(e)}
    else:
        cls = "OK"
        ctx.expect("meaningless-request-rejected", ref is not None, info=f"request={request}")
        ins, outs = well_formed(ctx, r, job["sub"] + "-")
        if ref is not None:
            ctx.expect("interface-as-prescribed", set(ins) == set(ref[0]) and set(outs) == set(ref[1]), info=f"request={request}: in={ins} out={outs} expected in={ref[0]} out={ref[1]}")
    # whatever happened, the operands are still the well-formed contracts they were
    for name, c, (ci, co) in (("first", c1, ifc[0]), ("second", c2, ifc[1])):
        xi, xo = well_formed(ctx, c, job["sub"] + "-operand-")
        ctx.expect("operands-keep-their-interface", xi == ci and xo == co, info=f"{name}: {xi} {xo}")
    return {"cls": cls}


def run(ctx, job):
    if job["op"] == "poly":
        return run_poly(ctx, job)
    ctx.scripted = True
    from pacti.iocontract import IoContract, Var
    from pacti.utils.errors import IncompatibleArgsError

    op = job["op"]
    mode = job["mode"]
    ctx.tag("op:" + op)
    ctx.tag("mode:" + mode)
    eng = ctx.eng
    tp = job["topo"]
    n = len(tp)
    allv = T.names(n)
    i1, o1 = T.interface(tp, 0)
    i2, o2 = T.interface(tp, 1)
    V = lambda ns: [Var(x) for x in ns]  # noqa: E731
    if op == "ctor":
        ATerm, ATermList, conj = abstract.make(ctx, "obedient")
        L = job["lists"]
        ins, outs = list(i1), list(o1)
        a = [list(t) for t in L["a1"]]
        g = [list(t) for t in L["g1"]]
        fault = job["fault"]
        bad = False
        if fault == "dup-input" and ins:
            ins = ins + [ins[0]]
            bad = True
        elif fault == "dup-output" and outs:
            outs = outs + [outs[0]]
            bad = True
        elif fault == "overlap" and ins:
            outs = outs + [ins[0]]
            bad = True
        elif fault == "a-mentions-output" and outs:
            a = a + [[outs[0]]]
            bad = True
        elif fault == "g-mentions-foreign":
            g = g + [["foreign"]]
            bad = True
        try:
            c = IoContract(ATermList([ATerm(V(t)) for t in a]), ATermList([ATerm(V(t)) for t in g]), V(ins), V(outs), simplify=eng.choose("simplify-flag"))
        except IncompatibleArgsError:
            ctx.expect("ctor-IAE-only-for-ill-formed-arguments", bad, info=fault)
            if bad:
                ctx.tag("illegal-request-rejected")
            return {"cls": "IAE"}
        except ValueError:
            return {"cls": "VE"}
        ctx.expect("ctor-rejects-ill-formed-arguments", not bad, info=fault)
        well_formed(ctx, c, "ctor-")
        return {"cls": "OK"}
    try:
        c1, c2, conj, ATermList = C05.build(ctx, job, mode)
    except IncompatibleArgsError:
        return {"cls": "operand-IAE"}
    if op == "copy":
        c = c1.copy()
        ins, outs = well_formed(ctx, c, "copy-")
        ctx.expect("copy-keeps-interface", ins == i1 and outs == o1)
        ctx.expect("copy-shares-no-lists", c.inputvars is not c1.inputvars and c.outputvars is not c1.outputvars and c.a is not c1.a and c.g is not c1.g)
        return {"cls": "OK"}
    if op == "rename":
        # source / target chosen by forks over all names plus a fresh one
        cand = allv + ["fresh"]
        src = next((v for v in cand if eng.choose("src")), cand[-1])
        tgt = next((v for v in cand if eng.choose("tgt")), cand[-1])
        clash = src != tgt and ((src in i1 and tgt in o1) or (src in o1 and tgt in i1))
        try:
            c = c1.rename_variable(Var(src), Var(tgt))
        except IncompatibleArgsError:
            ctx.expect("rename-IAE-only-for-input-output-clash", clash, info=f"{src}->{tgt}")
            if clash:
                ctx.tag("illegal-request-rejected")
            return {"cls": "IAE"}
        except ValueError:
            return {"cls": "VE"}
        ctx.expect("rename-clash-rejected", not clash, info=f"{src}->{tgt}")
        ins, outs = well_formed(ctx, c, "rename-")
        oi, oo = well_formed(ctx, c1, "rename-operand-")
        ctx.expect("rename-leaves-operand-interface", oi == i1 and oo == o1, info=f"{src}->{tgt}: {oi} {oo}")

        def ren(lst):
            if src == tgt or src not in lst:
                return list(lst)
            if tgt in lst:
                return [v for v in lst if v != src]
            return [tgt if v == src else v for v in lst]

        ctx.expect("rename-interface-as-prescribed", ins == ren(i1) and outs == ren(o1), info=f"{src}->{tgt}: {ins} {outs} vs {ren(i1)} {ren(o1)}")
        return {"cls": "OK"}
    if op == "refines":
        same = set(i1) == set(i2) and set(o1) == set(o2)
        try:
            c1.refines(c2)
        except IncompatibleArgsError:
            ctx.expect("refines-IAE-only-across-different-interfaces", not same)
            if not same:
                ctx.tag("illegal-request-rejected")
            return {"cls": "IAE"}
        ctx.expect("refines-across-different-interfaces-rejected", same)
        return {"cls": "OK"}
    # two-contract operations with a symbolic request subset
    # subsets of all variables plus one name foreign to both contracts
    request = [v for v in allv + ["foreign"] if eng.choose("request")] if op in ("compose", "quotient") else []
    a1v = set(v.name for v in c1.a.vars)
    a2v = set(v.name for v in c2.a.vars)
    if op == "compose":
        ref = T.ref_compose(i1, o1, i2, o2, request)
        cycle = bool(set(i1) & set(o2)) and bool(set(i2) & set(o1))
        if ref is not None and cycle and ((set(o2) & a1v) or (set(o1) & a2v)):
            ref = None  # feedback onto inputs that an assumption constrains
    elif op == "quotient":
        ref = T.ref_quotient(i1, o1, i2, o2, request)
    else:
        ref = T.ref_merge(i1, o1, i2, o2)
        if set(ref[0]) & set(ref[1]):
            ref = None
    ATermList.leftover = False
    try:
        if op == "compose":
            r, _ = c1.compose_tactics(c2, V(request), True, [])
        elif op == "quotient":
            r, _ = c1.quotient_tactics(c2, V(request), True, [])
        else:
            r = c1.merge(c2)
    except IncompatibleArgsError:
        if mode == "obedient":
            ctx.expect("IAE-only-for-meaningless-request", ref is None, info=f"request={request}")
        if ref is None:
            ctx.tag("illegal-request-rejected")
        return {"cls": "IAE"}
    except ValueError:
        ctx.expect("ValueError-only-from-a-failing-primitive", mode == "adversarial")
        # interface problems are detected before any primitive is called
        ctx.expect("meaningless-request-raises-IAE-not-ValueError", ref is not None, info=f"request={request}")
        return {"cls": "VE"}
    except Exception as e:
        ctx.expect("only-documented-exceptions", False, info=B.classify(e) + "@" + B.innermost_pacti_frame(e))
        return {"cls": B.classify(e)}
    ctx.expect("meaningless-request-rejected", ref is not None, info=f"request={request}")
    ins, outs = well_formed(ctx, r, op + "-")
    for name, c, (ci, co) in (("first", c1, (i1, o1)), ("second", c2, (i2, o2))):
        xi, xo = well_formed(ctx, c, op + "-operand-")
        ctx.expect("operands-keep-their-interface", xi == ci and xo == co, info=f"{name}: {xi} {xo}")
    if ref is not None:
        ctx.expect("interface-as-prescribed", set(ins) == set(ref[0]) and set(outs) == set(ref[1]), info=f"request={request}: in={ins} out={outs} expected in={ref[0]} out={ref[1]}")
    return {"cls": "OK", "res": {"cmp": [ins, outs]}}


def culprit(job, consts, label, rec):
    return job["op"]
