"""C07 — simplification never changes meaning and leaves nothing redundant."""
from __future__ import annotations

import random

import z3

from .. import build as B
from .. import cshapes as CS
from .. import lp
from .. import oracle as O
from .. import purity

PROP = "C07"
RULE = (
    "job = (coefficient pattern of list and context with planted duplicates/scalings/combinations); constants symbolic; "
    "per path: result is a selection of the input, equivalent in context, no kept term droppable with margin "
    "(projection-based, quantifier-free), ValueError only if infeasible in context"
)
ASSUMPTIONS = [
    "coefficients concrete, constants symbolic",
    "linprog = exact LP; float round-off only through replay",
    "a kept term counts as droppable only if implied by the other kept terms and the context with margin 1e-4*(1+|c|)",
]
BOUNDS = {"quick": {"variables": "<=4", "terms": "<=5 + <=2 context", "alphabet": [-2, -1, 1, 2]}, "thorough": {"variables": "<=5", "terms": "<=6 + <=3 context", "alphabet": [-3, -2, -1, 1, 2, 3, 0.5]}}
OPTS = {"quick": {"tier_budget_s": 200, "max_paths": 3000, "job_budget_s": 60}, "thorough": {"tier_budget_s": 1800, "max_paths": 20000, "job_budget_s": 300}}
REACH = {"quick": ["OK", "VE", "dropped-some", "kept-all", "contract"]}


def jobs(tier, seed):
    rng = random.Random(seed * 7919 + 7)
    alphabet = BOUNDS[tier]["alphabet"]
    za = alphabet + [0, 0]
    out = []
    n = 300 if tier == "quick" else 10000
    for i in range(n):
        nv = rng.choice([2, 3] if tier == "quick" else [2, 3, 4, 5])
        names = ["x", "y", "z", "w", "u"][:nv]
        base = [B.rterm(rng, names, za) for _ in range(rng.choice([1, 2, 3]))]
        terms = list(base)
        plant = rng.choice(["dup", "scaled", "combo", "none", "opposite", "dup+combo", "near-dup", "zero-row", "shares-context"])
        if "dup" in plant:
            terms.append(dict(rng.choice(base)))
        if plant == "scaled":
            f = rng.choice([2, 0.5, 3])
            terms.append({k: v * f for k, v in rng.choice(base).items()})
        if "combo" in plant and len(base) >= 2:
            a, b = rng.sample(range(len(base)), 2)
            c = {}
            for idx, m in ((a, rng.choice([1, 2])), (b, 1)):
                for k, v in base[idx].items():
                    c[k] = c.get(k, 0) + m * v
            c = {k: v for k, v in c.items() if v}
            if c:
                terms.append(c)
        if plant == "opposite":
            terms.append({k: -v for k, v in base[0].items()})
        if plant == "zero-row":
            # a variable-free row 0 <= c (what a cancelling substitution leaves behind): harmless iff c >= 0
            terms.insert(rng.randrange(len(terms) + 1), {})
        near = None
        if plant == "near-dup":
            # a term that differs from another one only in the sixth digit of one coefficient
            t0 = rng.choice(base)
            k0 = rng.choice(sorted(t0))
            near = dict(t0)
            near[k0] = t0[k0] * (1 + 8e-6)
            terms.append(near)
        rng.shuffle(terms)
        max_t = 5 if tier == "quick" else 6
        terms = terms[:max_t]
        ctx_mode = rng.choice(["none", "none", "random", "implies", "shared"])
        if plant == "shares-context":
            ctx_mode = "shared"
        if near is not None and near in terms:
            # the near-duplicate's twin goes to the context half of the time
            ctx_mode = rng.choice(["near-in-context", "none"])
        cx = []
        if ctx_mode == "random":
            cx = [B.rterm(rng, names, za) for _ in range(rng.choice([1, 2]))]
        elif ctx_mode == "implies":
            cx = [dict(rng.choice(terms))]  # same direction as a term: implied only via the context
        elif ctx_mode == "shared":
            cx = [dict(terms[0])]
        elif ctx_mode == "near-in-context":
            terms.remove(near)
            cx = [near]
        out.append({"kind": f"list:{plant}:{ctx_mode}", "terms": terms, "ctx": cx, "ctx_shared_const": ctx_mode == "shared", "explicit_none": ctx_mode == "none" and rng.random() < 0.5})
    # contexts made of variable-free rows only (0 <= c): what is left of an assumption that was refined to a constant
    # constraint; with an empty or variable-free list no variable remains at all
    for terms, cx in (([], [{}]), ([{}], [{}]), ([], [{}, {}]), ([{"x": 1}], [{}]), ([{}, {"x": 1}], [{}]), ([{}], []), ([{}, {}], []), ([{}, {}], [{}])):
        out.append({"kind": "list:free-context:free", "terms": terms, "ctx": cx, "ctx_shared_const": False, "explicit_none": False})
    nc = 80 if tier == "quick" else 2000
    for i in range(nc):
        c = CS.rand_contract(rng, ["x"], ["y"], alphabet, na=(0, 1, 2), ng=(1, 2, 3))
        if rng.random() < 0.5 and c["a"]:
            c["g"].append(dict(c["a"][0]))  # guarantee repeating an assumption
        out.append({"kind": "contract", "c": c, "method": rng.choice(["ctor", "simplify"])})
    return out


def infeasible_claim(ctx, rows):
    """Formula that is satisfiable iff a 'the system is infeasible' claim is wrong (rows may be variable-free)."""
    free = [c for coefs, c in rows if not coefs]
    rest = [(coefs, c) for coefs, c in rows if coefs]
    conj = [O.E.toz(c) >= 0 for c in free]
    if rest:
        names = O.names_of(rest)
        A, b = O.matrix_of(rest, names)
        conj.append(lp.feasibility_claims(ctx.mode, A, b)[0])
    return z3.And(*conj) if conj else z3.BoolVal(True)


def droppable_with_margin(kept_rows, ctx_rows, i):
    """Formula: kept row i is implied, with margin, by the other kept rows and the context."""
    others = [r for j, r in enumerate(kept_rows) if j != i] + list(ctx_rows)
    coefs, c = kept_rows[i]
    if not others:
        return z3.BoolVal(False)
    names = O.names_of(kept_rows, ctx_rows)
    A, b = O.matrix_of(others, names)
    feas, uppers = lp.max_over(A, b, [coefs.get(n, 0) for n in names])
    if not uppers:
        return z3.BoolVal(False)
    cz = O.E.toz(c)
    return z3.And(feas, z3.Or(*[u <= cz - O.margin(c) for u in uppers]))


def same_term(ctx, t, u):
    if set(v.name for v in t.variables) != set(v.name for v in u.variables):
        return False
    for v, c in t.variables.items():
        if float(c) != float(u.variables[v]):
            return False
    if ctx.mode == "real":
        # "constants unchanged up to floating-point round-off": reduce_polytope computes (c + 1) - 1
        a, b = float(t.constant), float(u.constant)
        return abs(a - b) <= 1e-9 * (1 + abs(b))
    return ctx.provable(O.E.toz(t.constant) == O.E.toz(u.constant))


def check_simplify(ctx, orig, cx, res, label=""):
    # (i) selection of the original terms
    ok = all(any(same_term(ctx, t, u) for u in orig.terms) for t in res.terms)
    ctx.expect(label + "result-is-selection-of-input", ok)
    ctx.tag("dropped-some" if len(res.terms) < len(orig.terms) else "kept-all")
    names = O.names_of(orig, cx, res)
    # (ii) equivalent wherever the context holds
    ctx.obligation(label + "simplified-implies-original", z3.And(O.box(names), O.holds(cx), O.holds(res), O.broken(orig)))
    ctx.obligation(label + "original-implies-simplified", z3.And(O.box(names), O.holds(cx), O.holds(orig), O.broken(res)))
    # (iii) nothing further droppable
    kept = O.rows_of(res)
    crow = O.rows_of(cx)
    # a system without any variable is a constant truth value; the property speaks of constraint lists over variables,
    # and pacti returns a one-row list as it is (`[0 <= 1].simplify()` keeps the row): observed, not judged
    if not names:
        return
    for i in range(len(kept)):
        ctx.obligation(label + "nothing-left-redundant", droppable_with_margin(kept, crow, i), info=f"row{i}")


def run(ctx, job):
    P = B.P()
    if job["kind"] == "contract":
        ctx.tag("contract")
        from pacti.contracts import PolyhedralIoContract

        spec = job["c"]
        a = B.mk_tl(ctx, spec["a"], "pa")
        g = B.mk_tl(ctx, spec["g"], "pg")
        ins = [B.Var(n) for n in spec["in"]]
        outs = [B.Var(n) for n in spec["out"]]
        try:
            if job["method"] == "ctor":
                c = PolyhedralIoContract(a, g, ins, outs)
            else:
                c = PolyhedralIoContract(a, g, ins, outs, simplify=False)
                c.simplify()
        except ValueError as e:
            names = O.names_of(a, g)
            A, b = O.matrix_of(list(O.rows_of(a)) + list(O.rows_of(g)), names)
            ctx.obligation("valueerror-only-if-infeasible", lp.feasibility_claims(ctx.mode, A, b)[0])
            return {"cls": B.classify(e)}
        except Exception as e:
            ctx.expect("only-documented-exceptions", False, info=B.classify(e) + "@" + B.innermost_pacti_frame(e))
            return {"cls": B.classify(e)}
        ctx.expect("assumptions-untouched", len(c.a.terms) == len(a.terms) and all(same_term(ctx, t, u) for t, u in zip(c.a.terms, a.terms)))
        check_simplify(ctx, g, a, c.g, "contract-")
        return {"cls": "OK", "res": c}
    tl = B.mk_tl(ctx, job["terms"], "t")
    orig_tl = tl.copy()  # the reference for the meaning, in case the call modifies its operand
    if job["ctx_shared_const"]:
        cx = P.PolyhedralTermList([P.PolyhedralTerm({B.Var(n): v for n, v in job["ctx"][0].items()}, tl.terms[0].constant)])
    else:
        cx = B.mk_tl(ctx, job["ctx"], "c")
    before = purity.guard(ctx, {"list": tl, "context": cx})
    try:
        if not job["ctx"] and job.get("explicit_none"):
            res = tl.simplify()
        else:
            res = tl.simplify(cx)
    except ValueError as e:
        ctx.obligation("valueerror-only-if-infeasible", infeasible_claim(ctx, list(O.rows_of(orig_tl)) + list(O.rows_of(cx))))
        return {"cls": B.classify(e)}
    except Exception as e:
        ctx.expect("only-documented-exceptions", False, info=B.classify(e) + "@" + B.innermost_pacti_frame(e))
        return {"cls": B.classify(e)}
    purity.check_unchanged(ctx, before, {"list": tl, "context": cx}, "simplify-leaves-its-operands-unchanged")
    check_simplify(ctx, orig_tl, cx, res)
    return {"cls": "OK", "res": res}


def culprit(job, consts, label, rec):
    return "simplify"
