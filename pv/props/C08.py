"""C08 — merging is the exact conjunction of the two viewpoints."""
from __future__ import annotations

import random

import z3

from .. import build as B
from .. import cshapes as CS
from .. import lp
from .. import oracle as O

PROP = "C08"
RULE = (
    "job = (interface overlap, coefficient patterns with duplicated/scaled terms across the operands); constants symbolic, "
    "optionally shared between the operands; per path: interface = unions, assumptions == conjunction, "
    "assumptions∧guarantees == assumptions∧both guarantees (tolerant both ways), both call orders agree"
)
ASSUMPTIONS = ["coefficients concrete, constants symbolic", "linprog = exact LP; float round-off only through replay"]
BOUNDS = {"quick": {"variables": "<=4", "terms": "<=2 a, <=3 g per contract", "alphabet": [-2, -1, 1, 2]}, "thorough": {"variables": "<=5", "terms": "<=3 a, <=3 g per contract", "alphabet": [-3, -2, -1, 1, 2, 3, 0.5]}}
OPTS = {"quick": {"tier_budget_s": 200, "max_paths": 3000, "job_budget_s": 60}, "thorough": {"tier_budget_s": 1800, "max_paths": 20000, "job_budget_s": 300}}
REACH = {"quick": ["OK", "VE", "iface:same", "iface:shared-in", "iface:disjoint", "iface:shared-out"]}

IFACES = {
    "same": (["x"], ["y"], ["x"], ["y"]),
    "shared-in": (["x"], ["y"], ["x"], ["z"]),
    "shared-out": (["x"], ["y"], ["u"], ["y"]),
    "disjoint": (["x"], ["y"], ["u"], ["v"]),
    "wide": (["x", "u"], ["y"], ["x"], ["y", "z"]),
}


def jobs(tier, seed):
    rng = random.Random(seed * 7919 + 8)
    alphabet = BOUNDS[tier]["alphabet"]
    out = []
    n = 200 if tier == "quick" else 5000
    names = list(IFACES)
    for i in range(n):
        w = names[i % len(names)]
        i1, o1, i2, o2 = IFACES[w]
        c1 = CS.rand_contract(rng, i1, o1, alphabet, na=(0, 1, 2), ng=(1, 2))
        c2 = CS.rand_contract(rng, i2, o2, alphabet, na=(0, 1, 2), ng=(1, 2))
        share = []
        mode = rng.choice(["plain", "dup-g", "dup-a", "scaled-g", "plain", "near-dup-g", "g-repeats-a", "g-repeats-a"])
        # duplicate / scale a term of c1 into c2 where the interface allows it
        if mode == "dup-g":
            cand = [t for t in c1["g"] if set(t) <= set(i2 + o2)]
            if cand:
                c2["g"].append(dict(cand[0]))
                if rng.random() < 0.5:
                    share.append(["g", c1["g"].index(cand[0]), len(c2["g"]) - 1])
        elif mode == "dup-a":
            cand = [t for t in c1["a"] if set(t) <= set(i2)]
            if cand:
                c2["a"].append(dict(cand[0]))
                if rng.random() < 0.5:
                    share.append(["a", c1["a"].index(cand[0]), len(c2["a"]) - 1])
        elif mode == "g-repeats-a":
            # one viewpoint states as a guarantee (first in its list) what the other assumes, same constant
            cand = [t for t in c1["a"] if set(t) <= set(i2 + o2)]
            if cand:
                c2["g"].insert(0, dict(cand[0]))
                share.append(["ag", c1["a"].index(cand[0]), 0])
        elif mode == "near-dup-g":
            # the same guarantee up to the sixth digit of one coefficient: two different constraints
            cand = [t for t in c1["g"] if set(t) <= set(i2 + o2)]
            if cand:
                t = dict(cand[0])
                k0 = sorted(t)[0]
                t[k0] = t[k0] * (1 + 8e-6)
                c2["g"].append(t)
        elif mode == "scaled-g":
            cand = [t for t in c1["g"] if set(t) <= set(i2 + o2)]
            if cand:
                c2["g"].append({k: 2 * v for k, v in cand[0].items()})
        out.append({"kind": f"{w}:{mode}", "iface": w, "c1": c1, "c2": c2, "share": share})
    # a merge performed right after the merge of an almost identical pair (gain 2 vs 2.0004): no stale results
    for gain in (2.0004, 1.9996):
        first = {"c1": {"in": ["x"], "out": ["y"], "a": [{"x": -1}, {"x": 2, "w": -1}][:1], "g": [{"y": 1, "x": -2}]}, "c2": {"in": ["x"], "out": ["y"], "a": [{"x": 1}], "g": [{"y": 1, "x": -2}, {"y": -1}]}}
        second = {"c1": {"in": ["x"], "out": ["y"], "a": [{"x": -1}], "g": [{"y": 1, "x": -gain}]}, "c2": {"in": ["x"], "out": ["y"], "a": [{"x": 1}], "g": [{"y": 1, "x": -2}, {"y": -1}]}}
        out.append({"kind": "same:sequence", "iface": "same", "first": first, "share": [], **second, "conc": {"pa0": 0, "pg0": 0, "qa0": 1000, "qg0": 0, "qg1": 0}})
    return out


def build(ctx, job):
    from pacti.contracts import PolyhedralIoContract

    P = B.P()
    c1 = B.mk_contract(ctx, job["c1"], "p")
    a2 = B.mk_tl(ctx, job["c2"]["a"], "qa")
    g2 = B.mk_tl(ctx, job["c2"]["g"], "qg")
    for which, i1, i2 in job["share"]:
        src = (c1.a if which in ("a", "ag") else c1.g).terms[i1]
        dst = a2 if which == "a" else g2
        dst.terms[i2] = P.PolyhedralTerm(dict(dst.terms[i2].variables), src.constant)
    c2 = PolyhedralIoContract(a2, g2, [B.Var(n) for n in job["c2"]["in"]], [B.Var(n) for n in job["c2"]["out"]], simplify=False)
    return c1, c2


def both(tl1, tl2):
    return list(O.rows_of(tl1)) + list(O.rows_of(tl2))


def run(ctx, job):
    ctx.tag("iface:" + job["iface"])
    if "first" in job:
        # warm-up merge of the almost identical pair
        ctx = B.Pinned(ctx, job["conc"])
        try:
            w1, w2 = build(ctx, dict(job["first"], share=[]))
            w1.merge(w2)
        except ValueError:
            pass
    c1, c2 = build(ctx, job)
    try:
        r = c1.merge(c2)
    except ValueError as e:
        cls = B.classify(e)
        if cls == "VE":
            rows = both(c1.a, c2.a) + both(c1.g, c2.g)
            names = O.names_of(rows)
            A, b = O.matrix_of(rows, names)
            ctx.obligation("valueerror-only-if-unsatisfiable", lp.feasibility_claims(ctx.mode, A, b)[0])
        else:
            ctx.expect("mergeable-interfaces-do-not-raise-IAE", False, info=cls)
        return {"cls": cls}
    except Exception as e:
        ctx.expect("only-documented-exceptions", False, info=B.classify(e) + "@" + B.innermost_pacti_frame(e))
        return {"cls": B.classify(e)}
    ins = set(job["c1"]["in"]) | set(job["c2"]["in"])
    outs = set(job["c1"]["out"]) | set(job["c2"]["out"])
    ctx.expect("interface-is-union", set(v.name for v in r.inputvars) == ins and set(v.name for v in r.outputvars) == outs and len(r.inputvars) == len(ins) and len(r.outputvars) == len(outs))
    a12, g12 = both(c1.a, c2.a), both(c1.g, c2.g)
    names = O.names_of(a12, g12, r.a, r.g)
    bx = O.box(names)
    ctx.obligation("assumptions-imply-both", z3.And(bx, O.holds(r.a), O.broken(a12)))
    ctx.obligation("both-imply-assumptions", z3.And(bx, O.holds(a12), O.broken(r.a)))
    ctx.obligation("guarantees-imply-both", z3.And(bx, O.holds(a12), O.holds(r.g), O.broken(g12)))
    ctx.obligation("both-imply-guarantees", z3.And(bx, O.holds(a12), O.holds(g12), O.broken(r.g)))
    # the other call order
    try:
        r2 = c2.merge(c1)
    except Exception as e:
        if B.classify(e) == "VE":
            # one order may detect unsatisfiability that the other returns as an unsatisfiable contract
            rows = a12 + g12
            A, b = O.matrix_of(rows, names)
            ctx.obligation("other-order-valueerror-only-if-unsatisfiable", lp.feasibility_claims(ctx.mode, A, b)[0])
        else:
            ctx.expect("other-order-also-returns", False, info=B.classify(e))
        return {"cls": "OK", "res": r}
    ctx.expect("orders-same-interface", set(v.name for v in r2.inputvars) == ins and set(v.name for v in r2.outputvars) == outs)
    ctx.obligation("orders-agree-assumptions", z3.And(bx, z3.Or(z3.And(O.holds(r.a), O.broken(r2.a)), z3.And(O.holds(r2.a), O.broken(r.a)))))
    ctx.obligation(
        "orders-agree-guarantees",
        z3.And(bx, O.holds(a12), z3.Or(z3.And(O.holds(r.g), O.broken(r2.g)), z3.And(O.holds(r2.g), O.broken(r.g)))),
    )
    return {"cls": "OK", "res": r}


def culprit(job, consts, label, rec):
    return "merge"
