"""C09 — parsing a constraint string preserves its arithmetic meaning."""
from __future__ import annotations

import random

import z3

from .. import build as B
from .. import oracle as O
from .. import shims

PROP = "C09"
SETUP = {"stub_str": False}
RULE = (
    "job = one constraint string generated from the documented grammar (expression tree, operator, spacing, optional '*'); "
    "every numeral is a digit placeholder mapped to a fresh non-negative real, so coefficient products, cancellations, equal "
    "absolute terms and zero divisors are solver-found; per path the parsed inequalities must be equivalent to the written "
    "relation for all points and numerals (QF_NRA); a second mode uses concrete numerals in several spellings"
)
ASSUMPTIONS = [
    "pyparsing runs concretely on concrete text; numerals are symbolic through the float() binding of the grammar module",
    "formatted symbolic numbers are canonical tokens (repr-equality in syntax/data.py is faithful to value equality)",
    "a convexity error is accepted iff some syntactic absolute-term group has net coefficient <= 0 in lhs - rhs",
]
BOUNDS = {"quick": {"depth": "<=2", "variables": "<=3", "symbolic numerals": "<=4"}, "thorough": {"depth": "<=3", "variables": "<=4", "symbolic numerals": "<=5"}}
OPTS = {"quick": {"tier_budget_s": 220, "max_paths": 400, "job_budget_s": 40, "witness_rate": 0.3, "query_timeout_ms": 8000, "witness_bound": 64, "witness_min_abs": 0.015625}, "thorough": {"tier_budget_s": 2400, "max_paths": 3000, "job_budget_s": 200, "query_timeout_ms": 20000, "witness_bound": 64, "witness_min_abs": 0.015625}}
REACH = {"quick": ["OK", "CONVEX", "SYNTAX", "prod:leq", "prod:geq", "prod:eq", "prod:abs", "prod:group", "prod:paren", "prod:arith", "prod:chain", "spelling", "mutant", "sequence"]}

VARS = ["x", "y", "z", "w"]
EXTRA_VARS = ["e5"]


# ---- expression trees -----------------------------------------------------------------
class Gen:
    def __init__(self, rng, nvars, max_num, depth, symbolic=True):
        self.rng = rng
        self.vars = VARS[:nvars]
        self.max_num = max_num
        self.nnum = 0
        self.depth = depth
        self.symbolic = symbolic
        self.tags = set()

    def num(self):
        r = self.rng
        if self.symbolic and self.nnum < self.max_num and r.random() < 0.8:
            self.nnum += 1
            return ("num", self.nnum - 1)
        return ("lit", r.choice(["1", "2", "3", "0.5", "1.0", "2.", ".5", "1e0", "2E+0", "10", "0", "0.25", "1.5e1"]))

    def numexpr(self):
        r = self.rng
        if r.random() < 0.18:
            self.tags.add("arith")
            return ("arith", self.add_chain(1))
        return self.num()

    # constant arithmetic:  add_chain := mul_item ((+|-) mul_item)* ; mul_item := atom ((*|/) atom)* ;
    # atom := number | ( add_chain )
    def add_chain(self, depth):
        r = self.rng
        items = [self.mul_item(depth)]
        for _ in range(r.choice([0, 1, 1, 2])):
            items += [r.choice(["+", "-"]), self.mul_item(depth)]
        return ("add", items)

    def mul_item(self, depth):
        r = self.rng
        items = [self.atom(depth)]
        for _ in range(r.choice([0, 0, 1, 2])):
            op = r.choice(["*", "/"])
            if op == "/":
                # divisors: a symbolic numeral or a power of two, so that pacti's float arithmetic on
                # concrete literals is exact (floats are read as the rationals they denote)
                if self.symbolic and self.nnum < self.max_num and r.random() < 0.6:
                    self.nnum += 1
                    d = ("num", self.nnum - 1)
                else:
                    d = ("lit", r.choice(["1", "2", "0.5", "4", "1e0", "2E+0", "2.", ".5"]))
                items += [op, d]
            else:
                items += [op, self.atom(depth)]
        return ("mulc", items)

    def atom(self, depth):
        if depth > 0 and self.rng.random() < 0.2:
            return ("par", self.add_chain(depth - 1))
        return self.num()

    def term(self, depth):
        r = self.rng
        k = r.random()
        star = r.random() < 0.3
        if k < 0.3:
            return ("var", r.choice(self.vars))
        if k < 0.6:
            return ("mul", self.numexpr(), r.choice(self.vars), star)
        if k < 0.75:
            return ("const", self.numexpr())
        if depth <= 0:
            return ("var", r.choice(self.vars))
        self.tags.add("paren")
        if k < 0.9:
            return ("mulp", self.numexpr(), self.terms(depth - 1), star)
        return ("pterms", self.terms(depth - 1))

    def terms(self, depth, n=None):
        r = self.rng
        n = n or r.choice([1, 1, 2, 3])
        out = []
        for i in range(n):
            sign = r.choice(["+", "-"]) if i else r.choice(["", "", "-", "+"])
            out.append((sign, self.term(depth)))
        return out

    def abs_term(self, depth):
        self.tags.add("abs")
        r = self.rng
        coef = self.numexpr() if r.random() < 0.5 else None
        return ("abs", coef, self.terms(max(depth - 1, 0), n=r.choice([1, 1, 2])), r.random() < 0.3)

    def abs_or_terms(self, depth):
        r = self.rng
        n = r.choice([1, 2, 2, 3])
        out = []
        for i in range(n):
            sign = r.choice(["+", "-", "+"]) if i else r.choice(["", "", "-"])
            item = self.abs_term(depth) if r.random() < 0.45 else self.term(depth)
            out.append((sign, item))
        return out

    def side(self, depth, allow_abs=True):
        r = self.rng
        if not allow_abs:
            return self.terms(depth)
        n = r.choice([1, 1, 2])
        out = []
        for i in range(n):
            sign = r.choice(["+", "-", "+"]) if i else r.choice(["", "", "-"])
            k = r.random()
            if k < 0.2 and depth > 0:
                self.tags.add("group")
                coef = self.numexpr() if r.random() < 0.6 else None
                out.append((sign, ("group", coef, self.abs_or_terms(depth - 1), r.random() < 0.3)))
            elif k < 0.5:
                out.append((sign, self.abs_term(depth)))
            else:
                out.append((sign, self.term(depth)))
        return out

    def relation(self):
        r = self.rng
        k = r.random()
        if k < 0.25:
            self.tags.add("eq")
            return ("eq", self.side(self.depth, False), self.side(self.depth, False), r.choice(["=", "=="]))
        op = "leq" if k < 0.65 else "geq"
        self.tags.add(op)
        n = 2 if r.random() < 0.8 else 3
        if n == 3:
            self.tags.add("chain")
        return (op, [self.side(self.depth) for _ in range(n)])


def ph(i):
    return f"90{i:02d}"


class Render:
    def __init__(self, rng, spaced):
        self.rng = rng
        self.spaced = spaced

    def sp(self):
        return " " if self.spaced else self.rng.choice(["", " "])

    def num(self, n):
        if n[0] == "num":
            return ph(n[1])
        if n[0] == "lit":
            return n[1]
        if n[0] == "arith":
            return f"({self.num(n[1])})"
        if n[0] == "par":
            return f"({self.num(n[1])})"
        if n[0] in ("add", "mulc"):
            out = ""
            for i, it in enumerate(n[1]):
                out += (f"{self.sp()}{it}{self.sp()}" if i % 2 else self.num(it))
            return out
        raise ValueError(n[0])

    def mulsep(self, star, next_is_alpha):
        if star:
            return f"{self.sp()}*{self.sp()}"
        return " " if self.spaced else self.rng.choice(["", " "])

    def term(self, t):
        k = t[0]
        if k == "var":
            return t[1]
        if k == "mul":
            return f"{self.num(t[1])}{self.mulsep(t[3], True)}{t[2]}"
        if k == "const":
            return self.num(t[1])
        if k == "pterms":
            return f"({self.terms(t[1])})"
        if k == "mulp":
            return f"{self.num(t[1])}{self.mulsep(t[3], False)}({self.terms(t[2])})"
        if k == "abs":
            pre = "" if t[1] is None else f"{self.num(t[1])}{self.mulsep(t[3], False)}"
            return f"{pre}|{self.terms(t[2])}|"
        if k == "group":
            pre = "" if t[1] is None else f"{self.num(t[1])}{self.mulsep(t[3], False)}"
            return f"{pre}({self.terms(t[2])})"
        raise ValueError(k)

    def terms(self, ts):
        s = ""
        for i, (sign, t) in enumerate(ts):
            if i == 0:
                s += sign + self.term(t)
            else:
                s += f"{self.sp()}{sign}{self.sp()}{self.term(t)}"
        return s

    def relation(self, r):
        if r[0] == "eq":
            return f"{self.terms(r[1])}{self.sp()}{r[3]}{self.sp()}{self.terms(r[2])}"
        op = "<=" if r[0] == "leq" else ">="
        return f"{self.sp()}{op}{self.sp()}".join(self.terms(s) for s in r[1])


# ---- reference semantics -------------------------------------------------------------------
def lit_value(txt):
    from fractions import Fraction

    return O.E.q(Fraction(float(txt)))


class Ref:
    def __init__(self, ks):
        self.ks = ks
        self.abs_terms = []  # collected while evaluating a side: (coef z3, lin form dict, const z3)

    def num(self, n):
        if n[0] == "num":
            return self.ks[n[1]]
        if n[0] == "lit":
            return lit_value(n[1])
        if n[0] in ("arith", "par"):
            return self.num(n[1])
        items = n[1]
        acc = self.num(items[0])
        for op, it in zip(items[1::2], items[2::2]):
            v = self.num(it)
            acc = {"+": acc + v, "-": acc - v, "*": acc * v, "/": acc / v}[op]
        return acc

    def divisors(self, n, acc):
        if n[0] in ("arith", "par"):
            self.divisors(n[1], acc)
        elif n[0] in ("add", "mulc"):
            items = n[1]
            self.divisors(items[0], acc)
            for op, it in zip(items[1::2], items[2::2]):
                self.divisors(it, acc)
                if op == "/":
                    acc.append(self.num(it))

    def val(self, t):
        k = t[0]
        if k == "var":
            return O.pt(t[1])
        if k == "mul":
            return self.num(t[1]) * O.pt(t[2])
        if k == "const":
            return self.num(t[1])
        if k == "pterms":
            return self.sum(t[1])
        if k == "mulp":
            return self.num(t[1]) * self.sum(t[2])
        if k == "abs":
            c = z3.RealVal(1) if t[1] is None else self.num(t[1])
            return c * O.zabs(self.sum(t[2]))
        if k == "group":
            c = z3.RealVal(1) if t[1] is None else self.num(t[1])
            return c * self.sum(t[2])
        raise ValueError(k)

    def sum(self, ts):
        e = z3.RealVal(0)
        for sign, t in ts:
            v = self.val(t)
            e = e - v if sign == "-" else e + v
        return e

    # linear form (dict var -> z3, const z3) of terms without abs
    def lin(self, ts, mult=None):
        mult = z3.RealVal(1) if mult is None else mult
        form, const = {}, z3.RealVal(0)

        def add(f2, c2, m):
            nonlocal const
            for v, c in f2.items():
                form[v] = form.get(v, z3.RealVal(0)) + m * c
            const = const + m * c2

        for sign, t in ts:
            m = -mult if sign == "-" else mult
            k = t[0]
            if k == "var":
                add({t[1]: z3.RealVal(1)}, z3.RealVal(0), m)
            elif k == "mul":
                add({t[2]: self.num(t[1])}, z3.RealVal(0), m)
            elif k == "const":
                add({}, self.num(t[1]), m)
            elif k == "pterms":
                f2, c2 = self.lin(t[1])
                add(f2, c2, m)
            elif k == "mulp":
                f2, c2 = self.lin(t[2])
                add(f2, c2, m * self.num(t[1]))
            else:
                raise ValueError("abs inside linear form")
        return form, const

    def collect_abs(self, side, mult, acc):
        """(effective coefficient, inner form) of every absolute term of a side."""
        for sign, t in side:
            m = -mult if sign == "-" else mult
            if t[0] == "abs":
                c = z3.RealVal(1) if t[1] is None else self.num(t[1])
                acc.append((m * c, self.lin(t[2])))
            elif t[0] == "group":
                c = z3.RealVal(1) if t[1] is None else self.num(t[1])
                self.collect_abs(t[2], m * c, acc)

    def all_divisors(self, rel):
        acc = []

        def walk(x):
            if isinstance(x, (tuple, list)):
                if x and isinstance(x[0], str) and x[0] == "arith":
                    self.divisors(x, acc)
                    return
                for y in x:
                    walk(y)

        walk(rel)
        return acc

    def relation_tol(self, r, tau):
        """The written relation relaxed by tau (used on concrete replays: float round-off)."""
        if r[0] == "eq":
            d = self.sum(r[1]) - self.sum(r[2])
            return z3.And(d <= tau, -d <= tau)
        sides = [self.sum(s) for s in r[1]]
        if r[0] == "leq":
            return z3.And(*[a - b <= tau for a, b in zip(sides, sides[1:])])
        return z3.And(*[b - a <= tau for a, b in zip(sides, sides[1:])])

    def relation(self, r):
        if r[0] == "eq":
            return self.sum(r[1]) == self.sum(r[2])
        sides = [self.sum(s) for s in r[1]]
        if r[0] == "leq":
            return z3.And(*[a <= b for a, b in zip(sides, sides[1:])])
        return z3.And(*[a >= b for a, b in zip(sides, sides[1:])])


# ---- jobs ------------------------------------------------------------------------------------
MUTANTS = [
    ("trailing-operator", lambda s: s + " +"),
    ("unbalanced-bar", lambda s: s.replace("|", "", 1) if "|" in s else "|" + s),
    ("unbalanced-paren", lambda s: s.replace(")", "", 1) if ")" in s else "(" + s),
    ("no-relation", lambda s: s.split("<=")[0].split(">=")[0].split("=")[0]),
    ("illegal-char", lambda s: s + " $"),
    ("double-relation", lambda s: s.replace("<=", "<= <=", 1) if "<=" in s else s.replace("=", "= <=", 1)),
    ("empty-side", lambda s: "<= " + s),
]

def _v(x):
    return ("var", x)


def _n(i):
    return ("num", i)


def _m(i, x):
    return ("mul", _n(i), x, False)


def _c(i):
    return ("const", _n(i))


def _ab(coef, ts):
    return ("abs", coef, ts, False)


X, Y, Z = [("", _v("x"))], [("", _v("y"))], [("", _v("z"))]
CURATED = [
    ("repeated-abs", ("leq", [[("", _ab(None, X)), ("+", _ab(None, X))], [("", _c(0))]])),
    ("repeated-abs-coefs", ("leq", [[("", _ab(_n(0), X)), ("+", _ab(_n(1), X))], [("", _c(2))]])),
    ("repeated-abs-three", ("leq", [[("", _ab(None, X)), ("+", _ab(None, X)), ("+", _ab(None, X))], [("", _c(0))]])),
    ("abs-cancels", ("leq", [[("", _ab(None, X)), ("-", _ab(None, X)), ("+", _v("y"))], [("", _c(0))]])),
    ("abs-difference", ("leq", [[("", _ab(_n(0), X)), ("-", _ab(_n(1), X))], [("", _c(2))]])),
    ("division", ("leq", [[("", ("mul", ("arith", ("add", [("mulc", [_n(0), "/", _n(1)])])), "x", False))], [("", _c(2))]])),
    ("division-chain", ("leq", [[("", ("mul", ("arith", ("add", [("mulc", [_n(0), "/", _n(1), "/", _n(2)])])), "x", False))], [("", ("const", ("arith", ("add", [("mulc", [_n(3), "*", ("lit", "4"), "/", ("lit", "6")])]))))]])),
    ("sum-chain", ("leq", [[("", _v("x"))], [("", ("const", ("arith", ("add", [("mulc", [_n(0)]), "+", ("mulc", [_n(1)]), "-", ("mulc", [_n(2)])]))))]])),
    ("precedence", ("leq", [[("", ("mul", ("arith", ("add", [("mulc", [_n(0)]), "+", ("mulc", [_n(1), "*", _n(2)]), "-", ("mulc", [("lit", "8"), "/", ("lit", "2"), "/", ("lit", "2")])])), "x", False))], [("", ("const", ("arith", ("add", [("mulc", [("lit", "2"), "*", ("par", ("add", [("mulc", [("lit", "1")]), "+", ("mulc", [_n(3)])]))])]))))]])),
    ("abs-coef-difference", ("leq", [[("", _ab(("arith", ("add", [("mulc", [_n(0)]), "-", ("mulc", [_n(1)])])), X))], [("", _c(2))]])),
    ("var-cancels", ("leq", [[("", _m(0, "x")), ("-", _m(1, "x"))], [("", _c(2))]])),
    ("abs-both-sides", ("leq", [[("", _ab(None, X)), ("+", _v("y"))], [("", _ab(None, X)), ("+", _c(0))]])),
    ("abs-both-sides-coefs", ("leq", [[("", _ab(_n(0), X)), ("+", _v("y"))], [("", _ab(_n(1), X)), ("+", _c(2))]])),
    ("geq-abs-right", ("geq", [[("", _v("x"))], [("", _ab(None, Y)), ("+", _c(0))]])),
    ("neg-group", ("geq", [[("-", ("group", _n(0), [("", _ab(None, X)), ("-", _v("y"))], False))], [("", _c(1))]])),
    ("chain", ("leq", [[("", _c(0))], [("", _v("x"))], [("", _m(1, "y"))]])),
    ("equality", ("eq", [("", _m(0, "x"))], [("", _m(1, "y")), ("+", _c(2))], "=")),
    ("abs-affine", ("leq", [[("", _ab(None, [("", _m(0, "x")), ("+", _c(1))]))], [("", _c(2))]])),
    ("group-distributes", ("leq", [[("", ("group", _n(0), [("", _ab(None, X)), ("+", _m(1, "y"))], False))], [("", _c(2))]])),
    ("same-abs-iff-equal-numerals", ("leq", [[("", _ab(None, [("", _m(0, "x"))])), ("+", _ab(None, [("", _m(1, "x"))]))], [("", _c(2))]])),
    ("paren-factor", ("leq", [[("", ("mulp", _n(0), [("", _v("x")), ("-", _m(1, "y"))], False)), ("+", _m(2, "x"))], [("", _c(3))]])),
    ("abs-in-group-both-signs", ("leq", [[("", ("group", None, [("", _ab(None, X)), ("-", _ab(_n(0), Y))], False))], [("", _c(1))]])),
    ("zero-coefficient-abs", ("leq", [[("", _ab(("lit", "0"), X)), ("+", _v("y"))], [("", _c(0))]])),
    ("geq-chain-abs", ("geq", [[("", _c(0))], [("", _ab(None, X))], [("", _ab(None, Y))]])),
]


def max_num(tree):
    m = [-1]

    def walk(x):
        if isinstance(x, tuple) and len(x) == 2 and x[0] == "num":
            m[0] = max(m[0], x[1])
        elif isinstance(x, (tuple, list)):
            for y in x:
                walk(y)

    walk(tree)
    return m[0] + 1


def count_ph(text):
    i = 0
    while ph(i) in text:
        i += 1
    return i


def jobs(tier, seed):
    rng = random.Random(seed * 7919 + 9)
    out = []
    for name, tree in CURATED:
        for spaced in (True, False):
            txt = Render(rng, spaced=spaced).relation(tree)
            out.append({"kind": "curated:" + name, "text": txt, "tree": tree, "nnum": max_num(tree), "tags": ["curated"]})
    n = 170 if tier == "quick" else 3000
    depth = 2 if tier == "quick" else 3
    for i in range(n):
        g = Gen(rng, rng.choice([1, 2, 3] if tier == "quick" else [2, 3, 4]), 4 if tier == "quick" else 5, rng.choice([1, depth]), symbolic=True)
        rel = g.relation()
        txt = Render(rng, spaced=rng.random() < 0.5).relation(rel)
        out.append({"kind": "generated", "text": txt, "tree": rel, "nnum": g.nnum, "tags": sorted(g.tags)})
        if i % 6 == 0:
            name, f = MUTANTS[(i // 6) % len(MUTANTS)]
            out.append({"kind": "mutant", "text": f(txt), "tree": None, "nnum": g.nnum, "tags": ["mutant:" + name], "expect": "SYNTAX"})
    # two-step sequences: a string is parsed right after another one that differs from it only by white space inside
    # what would otherwise be one number or identifier (the two readings differ)
    seqs = [
        ("x <= 1e5", "x <= 1 e5", ("leq", [[("", _v("x"))], [("", ("mul", ("lit", "1"), "e5", False))]]), None),
        ("x - 1e1 y <= 2", "x - 1 e1 y <= 2", None, "SYNTAX"),
        ("12x <= 3", "1 2x <= 3", None, "SYNTAX"),
        ("-xy <= 1", "-x y <= 1", None, "SYNTAX"),
        ("2x + y <= 3", "2 x+y<=3", ("leq", [[("", ("mul", ("lit", "2"), "x", False)), ("+", _v("y"))], [("", ("const", ("lit", "3")))]]), None),
    ]
    for first, second, tree, expect in seqs:
        out.append({"kind": "sequence", "first": first, "text": second, "tree": tree, "nnum": 0, "tags": ["sequence"], "expect": expect})
    # concrete numerals in several spellings, several spacings: the same tree rendered repeatedly
    m = 40 if tier == "quick" else 500
    for i in range(m):
        g = Gen(rng, rng.choice([1, 2, 3]), 0, rng.choice([1, 2]), symbolic=False)
        rel = g.relation()
        for spaced in (True, False):
            txt = Render(rng, spaced=spaced).relation(rel)
            out.append({"kind": "spelling", "text": txt, "tree": rel, "nnum": 0, "tags": sorted(g.tags) + ["spelling"]})
    return out


def parsed_formula(terms):
    E = O.E
    conj = []
    for t in terms:
        e = z3.RealVal(0)
        for v, c in t.variables.items():
            e = e + E.toz(c) * O.pt(v.name)
        conj.append(e <= E.toz(t.constant))
    return z3.And(*conj) if conj else z3.BoolVal(True)


def terms_equal(ctx, t1, t2):
    if len(t1) != len(t2):
        return False
    E = O.E
    for a, b in zip(t1, t2):
        if set(v.name for v in a.variables) != set(v.name for v in b.variables):
            return False
        conds = [E.toz(a.constant) == E.toz(b.constant)] + [E.toz(c) == E.toz(b.variables[v]) for v, c in a.variables.items()]
        if not ctx.provable(z3.And(*conds)):
            return False
    return True


CURATED_REF = {}


def run(ctx, job):
    import pacti.terms.polyhedra.serializer as S
    from pacti.utils.errors import PolyhedralSyntaxConvexException, PolyhedralSyntaxException

    E = O.E
    for t in job["tags"]:
        ctx.tag(t if ":" in t or t in ("spelling", "curated") else "prod:" + t)
    if job["kind"] == "mutant":
        ctx.tag("mutant")
    ks = []
    for i in range(job["nnum"]):
        k = ctx.const(f"n{i}", lo=0)
        if ctx.mode == "sym":
            shims.NUMERALS[ph(i)] = k
        ks.append(E.toz(k))
    text = job["text"]
    if job["kind"] == "sequence":
        ctx.tag("sequence")
        try:
            S.polyhedral_termlist_from_string(job["first"])
        except Exception:
            pass
    if ctx.mode == "real":
        # no shims in real mode: write the witness values into the text
        for i in reversed(range(job["nnum"])):
            text = text.replace(ph(i), repr(float(ctx.const(f"n{i}"))))
    try:
        terms = S.polyhedral_termlist_from_string(text)
        cls = "OK"
    except PolyhedralSyntaxConvexException:
        cls = "CONVEX"
    except PolyhedralSyntaxException:
        cls = "SYNTAX"
    except Exception as e:
        cls = B.classify(e)
        ctx.expect("only-syntax-or-convexity-errors", False, info=cls + "@" + B.innermost_pacti_frame(e))
        return {"cls": cls}
    if job["kind"] == "mutant" or (job["kind"] == "sequence" and job.get("expect") == "SYNTAX"):
        ctx.expect("malformed-string-raises-syntax-error", cls == "SYNTAX", info=text)
        return {"cls": cls}
    if cls == "SYNTAX":
        # Is the refusal independent of the numerals' values (the grammar does not accept this string)?
        probe = job["text"]
        for i in reversed(range(job["nnum"])):
            probe = probe.replace(ph(i), "1")
        try:
            S.polyhedral_termlist_from_string(probe)
            value_independent = False
        except PolyhedralSyntaxException:
            value_independent = True
        except Exception:
            value_independent = False
        if value_independent:
            ctx.tag("not-in-accepted-language")
            return {"cls": "SYNTAX"}
        # accepted for other numerals: the only legitimate value-dependent refusal is a zero divisor
        divs = Ref(ks).all_divisors(job["tree"]) if job["tree"] is not None else []
        ctx.obligation("syntax-error-only-for-zero-divisor", z3.And(*[d != 0 for d in divs]) if divs else z3.BoolVal(True), info=text)
        return {"cls": cls}
    if cls == "OK":
        # parsing again gives the same result
        try:
            again = S.polyhedral_termlist_from_string(text)
            ctx.expect("parsing-twice-gives-equal-result", terms_equal(ctx, terms, again))
        except Exception as e:
            ctx.expect("parsing-twice-gives-equal-result", False, info=B.classify(e))
    tree = job["tree"]
    if tree is None:
        return {"cls": cls, "res": terms if cls == "OK" else None}
    ref = Ref(ks)
    if cls == "OK":
        if ctx.mode == "sym":
            ctx.obligation("parsed-meaning-equals-written-relation", z3.Xor(parsed_formula(terms), ref.relation(tree)), info=text)
        else:
            # concrete replay: pacti computed the coefficients in floating point
            names = sorted(set(VARS + EXTRA_VARS))
            tau = E.q(1e-6)
            mag = z3.RealVal(1)
            for t in terms:
                mag = mag + O.zabs(E.toz(t.constant))
                for c in t.variables.values():
                    mag = mag + 1000 * O.zabs(E.toz(c))
            tau = tau * mag
            relaxed_parsed = z3.And(*[sum((E.toz(c) * O.pt(v.name) for v, c in t.variables.items()), z3.RealVal(0)) <= E.toz(t.constant) + tau for t in terms]) if terms else z3.BoolVal(True)
            ctx.obligation(
                "parsed-meaning-equals-written-relation",
                z3.And(O.box(names), z3.Or(z3.And(parsed_formula(terms), z3.Not(ref.relation_tol(tree, tau))), z3.And(ref.relation(tree), z3.Not(relaxed_parsed)))),
                info=text,
            )
        return {"cls": cls, "res": terms}
    # CONVEX: some syntactic absolute-term group must have net coefficient <= 0 in lhs - rhs
    if tree[0] == "eq":
        ctx.expect("convexity-error-only-with-absolute-values", False, info=text)
        return {"cls": cls}
    sides = tree[1]
    pair_ok = []
    for a, b in zip(sides, sides[1:]):
        acc = []
        if tree[0] == "leq":
            ref.collect_abs(a, z3.RealVal(1), acc)
            ref.collect_abs(b, z3.RealVal(-1), acc)
        else:
            ref.collect_abs(a, z3.RealVal(-1), acc)
            ref.collect_abs(b, z3.RealVal(1), acc)
        groups = []  # (form, [coefs])
        for coef, (form, const) in acc:
            placed = False
            # pacti groups absolute terms by the text of their reduced inner expression, in which a cancelled
            # variable (x - x) disappears while an explicit zero product (0 x) stays: forms with a zero
            # coefficient are therefore never merged here (finer groups only make the rejection easier to accept)
            if any(not ctx.provable(c != 0) for c in form.values()):
                groups.append(((form, const), [coef]))
                continue
            for g in groups:
                gform, gconst = g[0]
                if set(gform) == set(form) and ctx.provable(z3.And(gconst == const, *[gform[v] == form[v] for v in form])):
                    g[1].append(coef)
                    placed = True
                    break
            if not placed:
                groups.append(((form, const), [coef]))
        # replay: pacti adds the coefficients in floats; a net coefficient within 1e-6 of zero may fall on either side
        slack = z3.RealVal(0) if ctx.mode == "sym" else E.q(1e-6)
        pair_ok.append(z3.And(*[sum(cs, z3.RealVal(0)) > slack for _, cs in groups]) if groups else z3.BoolVal(True))
    ctx.obligation("convexity-error-only-for-nonconvex-use", z3.And(*pair_ok), info=text)
    return {"cls": cls}


def culprit(job, consts, label, rec):
    return "parse:" + ",".join(job.get("tags", []))
