"""C10 — contracts survive serialisation to dictionaries, strings and files."""
from __future__ import annotations

import copy
import os
import random
import re
import shutil
import tempfile
from fractions import Fraction

import z3

from .. import build as B
from .. import cshapes as CS
from .. import oracle as O
from .. import shims

PROP = "C10"
SETUP = {"stub_str": "list-only"}
RULE = (
    "job = (contract coefficient pattern with opposite-term pairs in every position, which numbers are symbolic, which "
    "representation: machine dict | machine file | string dict | string file); symbolic numbers are 0 or have magnitude in "
    "[1e-4, 1e6); machine dict must round-trip to an equal, hash-equal contract; file/string forms must give the same "
    "interface and the meaning of the printed constraints (every number as printed to 4 significant digits; the first term "
    "of a folded pair governs both halves); every printed string must be accepted by the parser"
)
ASSUMPTIONS = [
    "format(v, '.4g') is modelled numerically: |v| rounded to 4 significant digits (ties: either neighbour), 1e-4 <= |v| < 1e6",
    "json.dumps/json.load in pacti.utils.fileio are stubbed (token + remembered deep copy); real file I/O is performed",
    "np.isclose on symbolic scalars: |a-b| <= atol + rtol*|b| over the reals",
    "numbers are 0 or have magnitude in [1e-4, 1e6) (the property's domain)",
]
BOUNDS = {"quick": {"variables": "<=3", "terms": "<=1 a, <=4 g", "symbolic numbers": "<=3"}, "thorough": {"variables": "<=3", "terms": "<=2 a, <=4 g", "symbolic numbers": "<=5"}}
OPTS = {"quick": {"tier_budget_s": 230, "max_paths": 600, "job_budget_s": 40, "witness_rate": 0.3, "query_timeout_ms": 10000}, "thorough": {"tier_budget_s": 2400, "max_paths": 20000, "job_budget_s": 400}}
REACH = {"quick": ["OK", "rep:machine-dict", "rep:machine-file", "rep:string-dict", "rep:string-file", "fold:eq", "fold:abs", "fold:none", "concrete"]}


class JsonStub:
    """json for pacti.utils.fileio: dumps -> opaque token remembering a deep copy; load -> that copy."""

    def __init__(self, real):
        self.real = real
        self.store = {}

    def dumps(self, obj, **kw):
        tok = f"PVJSON{len(self.store)}"
        self.store[tok] = copy.deepcopy(obj)
        return self.real.dumps({"pv_token": tok})

    def load(self, fh):
        d = self.real.load(fh)
        return copy.deepcopy(self.store[d["pv_token"]])

    def __getattr__(self, n):
        return getattr(self.real, n)


def jobs(tier, seed):
    rng = random.Random(seed * 7919 + 10)
    out = []
    alphabet = [-2, -1, 1, 2, 0.5, 3, -1.5]
    reps = ["machine-dict", "machine-file", "string-dict", "string-file"]
    n = 80 if tier == "quick" else 1500
    for i in range(n):
        # variable names include ones that look like exponents (e1, E2): a printed "3 e1" must not read back as 3e1
        ins, outs = rng.choice([(["x"], ["y"]), (["x", "u"], ["y"]), (["x"], ["y", "z"]), (["e1"], ["y"]), (["x"], ["E2", "y"])])
        c = CS.rand_contract(rng, ins, outs, alphabet, na=(0, 1), ng=(1, 2))
        # opposite pair in a random position of the guarantees (and sometimes the assumptions)
        pair = rng.choice(["none", "g", "g", "a", "sub", "super"])
        if pair in ("sub", "super"):
            # near-opposite neighbours that must NOT fold: the negation of a term plus (or minus) one more variable
            allv = ins + outs
            cand = [t for t in c["g"] if len(t) < len(allv)]
            if cand:
                t = rng.choice(cand)
                extra = rng.choice([v for v in allv if v not in t])
                neg = {k: -v for k, v in t.items()}
                neg[extra] = rng.choice(alphabet)
                k = c["g"].index(t)
                if pair == "sub":
                    c["g"].insert(k + 1, neg)
                else:
                    c["g"].insert(k, neg)
        elif pair == "g":
            t = rng.choice(c["g"])
            pos = rng.randrange(len(c["g"]) + 1)
            c["g"].insert(pos, {k: -v for k, v in t.items()})
        elif pair == "a" and c["a"]:
            c["a"].append({k: -v for k, v in c["a"][0].items()})
        # which numbers are symbolic: all constants up to the budget, optionally one coefficient
        budget = 3 if tier == "quick" else 5
        nconst = len(c["a"]) + len(c["g"])
        sym_coef = None
        if rng.random() < 0.5 and reps[i % 4].endswith("dict"):
            which = rng.choice(["a", "g"]) if c["a"] else "g"
            k = rng.randrange(len(c[which]))
            sym_coef = [which, k, rng.choice(sorted(c[which][k]))]
            budget -= 1
        sym_consts = sorted(rng.sample(range(nconst), min(budget, nconst)))
        conc = [rng.choice([0, 1, -1, 2.5, 100, -0.001, 12345.678, 0.3, -7]) for _ in range(nconst)]
        out.append({"kind": reps[i % 4] + ":" + pair, "rep": reps[i % 4], "c": c, "sym_consts": sym_consts, "sym_coef": sym_coef, "conc": conc})
    # fully concrete contracts (real formatting incl. exponent notation, real lexing)
    m = 40 if tier == "quick" else 500
    vals = [0, 1, -1, 0.5, 2.5, 1234, 12345, 123456, 999999, 0.0001234, 0.00012344, 1e-4, 3.14159, -2.71828, 1e5, 99995, 0.1, 0.7, 1 / 3]
    for i in range(m):
        ins, outs = rng.choice([(["x"], ["y"]), (["x", "u"], ["y", "z"]), (["e2"], ["y", "E1"])])
        c = CS.rand_contract(rng, ins, outs, [rng.choice(vals[3:]) * rng.choice([1, -1]) for _ in range(4)], na=(0, 1), ng=(1, 2, 3))
        if rng.random() < 0.5:
            t = rng.choice(c["g"])
            c["g"].insert(rng.randrange(len(c["g"]) + 1), {k: -v for k, v in t.items()})
        nconst = len(c["a"]) + len(c["g"])
        out.append({"kind": "concrete:" + reps[2 + i % 2], "rep": reps[i % 4], "c": c, "sym_consts": [], "sym_coef": None, "conc": [rng.choice(vals) * rng.choice([1, -1]) for _ in range(nconst)]})
    return out


def in_domain(ctx, v):
    """Assume the symbolic number is 0 or has magnitude in [1e-4, 1e6)."""
    if ctx.mode != "sym":
        return
    z = v.z
    mag = O.zabs(z)
    ctx.eng.assume(z3.Or(z == 0, z3.And(mag >= O.E.q(Fraction(1, 10000)), mag <= 999999)))


def build(ctx, job):
    from pacti.contracts import PolyhedralIoContract

    P = B.P()
    spec = job["c"]
    idx = 0
    lists = {}
    for which in ("a", "g"):
        terms = []
        for k, row in enumerate(spec[which]):
            coefs = dict(row)
            if job["sym_coef"] and job["sym_coef"][0] == which and job["sym_coef"][1] == k:
                sc = ctx.const("coef")
                in_domain(ctx, sc)
                if ctx.mode == "sym":
                    ctx.eng.assume(sc.z != 0)
                coefs[job["sym_coef"][2]] = sc
            if idx in job["sym_consts"]:
                c = ctx.const(f"k{idx}")
                in_domain(ctx, c)
            else:
                c = float(job["conc"][idx])
            idx += 1
            terms.append(P.PolyhedralTerm({B.Var(n): v for n, v in coefs.items()}, c))
        lists[which] = P.PolyhedralTermList(terms)
    return PolyhedralIoContract(lists["a"], lists["g"], [B.Var(n) for n in spec["in"]], [B.Var(n) for n in spec["out"]], simplify=False)


# ---- reference reading of what was printed ------------------------------------------------------
def rounded(ctx, z, cache):
    """|z| rounded to 4 significant digits as a z3 term (sym) / exact value of the printed text (real)."""
    E = O.E
    zs = z3.simplify(z)
    if z3.is_rational_value(zs):
        # a concrete number is formatted by Python itself
        f = float(Fraction(zs.numerator_as_long(), zs.denominator_as_long()))
        return E.q(Fraction(float(format(f, ".4g"))))
    for orig, r in cache:
        if z3.eq(orig, zs):
            return r
    # the printer formats this very number on this path: find it among the recorded .4g calls
    for tok, (orig, r) in shims.FOURG.items():
        if z3.eq(z3.simplify(orig), zs):
            cache.append((zs, r))
            return r
        if z3.eq(z3.simplify(-orig), zs):
            cache.append((zs, -r))
            return -r
    return None


def printed_coef(ctx, a, cache):
    """Coefficient as the printer writes it: 1 / -1 if close, omitted if close to 0, else 4 digits."""
    E = O.E
    az = E.toz(a)

    def close(x, y):
        return O.zabs(x - y) <= E.q(1e-8) + E.q(1e-5) * O.zabs(y)

    if ctx.provable(close(az, z3.RealVal(1))):
        return z3.RealVal(1)
    if ctx.provable(close(az, z3.RealVal(-1))):
        return z3.RealVal(-1)
    if ctx.provable(close(az, z3.RealVal(0))):
        return z3.RealVal(0)
    if ctx.provable(az > 0):
        return rounded(ctx, az, cache)
    r = rounded(ctx, -az, cache)
    return None if r is None else -r


def printed_const(ctx, c, cache):
    cz = O.E.toz(c)
    if ctx.provable(cz == 0):
        return z3.RealVal(0)
    return rounded(ctx, cz, cache)


def reference_meaning(ctx, tl, label):
    """Meaning of tl.to_str_list() as the property defines it, following the printer's folding decisions."""
    import pacti.terms.polyhedra.serializer as S

    E = O.E
    cache = []
    ts = list(tl.terms)
    conj = []
    strings = []
    while ts:
        s, rest = S.polyhedral_term_list_to_strings(ts)
        strings.append(s)
        tp = ts[0]
        removed = [t for t in ts[1:] if not any(t is r for r in rest)]
        lhs = z3.RealVal(0)
        for v, a in tp.variables.items():
            pc = printed_coef(ctx, a, cache)
            if pc is None:
                ctx.expect(label + "reference-can-follow-printer", False, info=s)
                return None, strings
            lhs = lhs + pc * O.pt(v.name)
        cst = printed_const(ctx, tp.constant, cache)
        if cst is None:
            ctx.expect(label + "reference-can-follow-printer", False, info=s)
            return None, strings
        if removed:
            tn = removed[0]
            if s.startswith("|") and s.rstrip().endswith("| = 0"):
                kind = "abs0"
                conj.append(lhs == 0)
            elif s.startswith("|"):
                kind = "abs"
                conj.append(z3.And(lhs <= cst, -lhs <= cst))
            else:
                kind = "eq"
                conj.append(lhs == cst)
            ctx.tag("fold:" + ("abs" if kind.startswith("abs") else "eq"))
            # a fold is only legitimate for (approximately) opposite terms
            opp = []
            for v, a in tp.variables.items():
                b = tn.variables.get(v)
                if b is None:
                    opp.append(z3.BoolVal(False))
                else:
                    opp.append(O.zabs(E.toz(a) + E.toz(b)) <= E.q(1e-4) * O.zabs(E.toz(a)) + E.q(1e-7))
            if set(v.name for v in tp.variables) != set(v.name for v in tn.variables):
                opp.append(z3.BoolVal(False))
            cp, cn = E.toz(tp.constant), E.toz(tn.constant)
            if kind == "eq":
                opp.append(O.zabs(cp + cn) <= E.q(1e-4) * O.zabs(cp) + E.q(1e-7))
            elif kind == "abs":
                opp.append(O.zabs(cp - cn) <= E.q(1e-4) * O.zabs(cp) + E.q(1e-7))
            else:
                opp.append(z3.And(O.zabs(cp) <= E.q(1e-7), O.zabs(cn) <= E.q(1e-7)))
            ctx.obligation(label + "fold-only-opposite-terms", z3.Not(z3.And(*opp)), info=s)
        else:
            ctx.tag("fold:none")
            conj.append(lhs <= cst)
        ts = rest
    return (z3.And(*conj) if conj else z3.BoolVal(True)), strings


def meaning(tl):
    E = O.E
    conj = []
    for t in tl.terms:
        e = z3.RealVal(0)
        for v, a in t.variables.items():
            e = e + E.toz(a) * O.pt(v.name)
        conj.append(e <= E.toz(t.constant))
    return z3.And(*conj) if conj else z3.BoolVal(True)


def run(ctx, job):
    import pacti.utils.fileio as FIO
    from pacti.contracts import PolyhedralIoContract

    ctx.eng.path_state["literal_tokens"] = False
    rep = job["rep"]
    ctx.tag("rep:" + rep)
    if job["kind"].startswith("concrete"):
        ctx.tag("concrete")
    try:
        c = build(ctx, job)
    except ValueError as e:
        return {"cls": B.classify(e)}
    real_json = FIO.json
    tmp = None
    try:
        if rep.endswith("file"):
            tmp = tempfile.mkdtemp(prefix="pv_c10_")
            if ctx.mode == "sym":
                FIO.json = JsonStub(real_json if not isinstance(real_json, JsonStub) else real_json.real)
        try:
            if rep == "machine-dict":
                d = c.to_machine_dict()
                back = PolyhedralIoContract.from_dict(d, simplify=False)
            elif rep == "machine-file":
                fn = os.path.join(tmp, "c.json")
                FIO.write_contracts_to_file([c], ["c"], fn, machine_representation=True)
                cs, names = FIO.read_contracts_from_file(fn)
                back = cs[0]
                ctx.expect("file-keeps-name", names == ["c"])
            elif rep == "string-dict":
                d = c.to_dict()
                # with a symbolic coefficient the re-simplification (an LP with a symbolic matrix) is skipped
                back = PolyhedralIoContract.from_strings(**d, simplify=False) if job["sym_coef"] else PolyhedralIoContract.from_strings(**d)
            else:
                fn = os.path.join(tmp, "c.json")
                FIO.write_contracts_to_file([c], ["c"], fn, machine_representation=False)
                cs, names = FIO.read_contracts_from_file(fn)
                back = cs[0]
                ctx.expect("file-keeps-name", names == ["c"])
        except ValueError as e:
            cls = B.classify(e)
            if cls == "VE" and rep != "machine-dict":
                # reading back re-simplifies: an unsatisfiable contract may be refused
                from .. import lp

                rows = list(O.rows_of(c.a)) + list(O.rows_of(c.g))
                names_ = O.names_of(rows)
                A, b = O.matrix_of(rows, names_)
                if rep.startswith("machine"):
                    ctx.obligation("refused-only-if-unsatisfiable", lp.feasibility_claims(ctx.mode, A, b)[0])
                return {"cls": cls}
            ctx.expect("round-trip-does-not-raise", False, info=cls + "@" + B.innermost_pacti_frame(e))
            return {"cls": cls}
        except Exception as e:
            cls = B.classify(e)
            ctx.expect("round-trip-does-not-raise", False, info=cls + "@" + B.innermost_pacti_frame(e))
            return {"cls": cls}
    finally:
        FIO.json = real_json
        if tmp:
            shutil.rmtree(tmp, ignore_errors=True)
    ctx.expect("same-interface", [v.name for v in back.inputvars] == job["c"]["in"] and [v.name for v in back.outputvars] == job["c"]["out"])
    names = O.names_of(c.a, c.g, back.a, back.g)
    bx = O.box(names)
    # Reading a contract re-simplifies it with HiGHS (tolerance 1e-7 on rows it scales itself). With coefficients of
    # 1e5 and more, times points of size 1000, that tolerance is far above the 1e-4 of the numerical reading, so a row
    # may be judged redundant although it matters by 1e-3: for such (concrete) contracts the direction "what was read
    # back implies the original" is outside the claim; everything else is still checked.
    scale = max([abs(float(a)) for t in list(c.a.terms) + list(c.g.terms) for a in t.variables.values() if not isinstance(a, O.E.SymReal)] or [0.0])
    well_scaled = scale < 1e5
    if not well_scaled:
        ctx.tag("badly-scaled")
    if rep == "machine-dict":
        try:
            eq = bool(back == c)
            heq = hash(back) == hash(c)
        except Exception as e:
            ctx.expect("machine-dict-equal", False, info=B.classify(e))
            return {"cls": "OK"}
        ctx.expect("machine-dict-equal", eq)
        ctx.expect("machine-dict-hash-equal", heq)
        ctx.obligation("machine-dict-exact", z3.Not(z3.And(*[O.E.toz(t.constant) == O.E.toz(u.constant) for t, u in zip(list(c.a.terms) + list(c.g.terms), list(back.a.terms) + list(back.g.terms))])))
        return {"cls": "OK", "res": back}
    if rep == "machine-file":
        ctx.obligation("machine-file-assumptions-forward", z3.And(bx, O.holds(c.a), O.broken(back.a)))
        ctx.obligation("machine-file-assumptions-backward", z3.And(bx, O.holds(back.a), O.broken(c.a)))
        ctx.obligation("machine-file-contract-forward", z3.And(bx, O.holds(c.a), O.holds(c.g), O.broken(back.g)))
        if well_scaled:
            ctx.obligation("machine-file-contract-backward", z3.And(bx, O.holds(back.a), O.holds(back.g), O.broken(c.g)))
        return {"cls": "OK", "res": back}
    # string forms: meaning of what was printed (reference) vs what the parser read back
    ref_a, sa = reference_meaning(ctx, c.a, "a-")
    ref_g, sg = reference_meaning(ctx, c.g, "g-")
    if ref_a is None or ref_g is None:
        return {"cls": "OK"}
    ba, bg = list(O.rows_of(back.a)), list(O.rows_of(back.g))
    # tolerant both ways (the constructor re-simplifies the guarantees in the context of the assumptions)
    ctx.obligation("string-assumptions-forward", z3.And(bx, ref_a, O.broken(ba)))
    ctx.obligation("string-assumptions-backward", z3.And(bx, O.holds(ba), z3.Not(relax(ctx, c.a, "a-"))))
    ctx.obligation("string-contract-forward", z3.And(bx, ref_a, ref_g, O.broken(bg)))
    if well_scaled:
        ctx.obligation("string-contract-backward", z3.And(bx, O.holds(ba), O.holds(bg), z3.Not(relax(ctx, c.g, "g-"))))
    return {"cls": "OK", "res": back}


def relax(ctx, tl, label):
    """The printed reading relaxed by the property's tolerance (for the backward direction)."""
    import pacti.terms.polyhedra.serializer as S

    E = O.E
    cache = []
    ts = list(tl.terms)
    conj = []
    while ts:
        s, rest = S.polyhedral_term_list_to_strings(ts)
        tp = ts[0]
        removed = [t for t in ts[1:] if not any(t is r for r in rest)]
        lhs = z3.RealVal(0)
        for v, a in tp.variables.items():
            lhs = lhs + printed_coef(ctx, a, cache) * O.pt(v.name)
        cst = printed_const(ctx, tp.constant, cache)
        m = O.margin(tp.constant)
        if removed:
            if s.startswith("|") and s.rstrip().endswith("| = 0"):
                conj.append(z3.And(lhs <= m, -lhs <= m))
            elif s.startswith("|"):
                conj.append(z3.And(lhs <= cst + m, -lhs <= cst + m))
            else:
                conj.append(z3.And(lhs <= cst + m, -lhs <= -cst + m))
        else:
            conj.append(lhs <= cst + m)
        ts = rest
    return z3.And(*conj) if conj else z3.BoolVal(True)


def culprit(job, consts, label, rec):
    return job["rep"]
