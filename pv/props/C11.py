"""C11 — behaviour membership and emptiness agree with exact arithmetic."""
from __future__ import annotations

import itertools
import random

import z3

from .. import build as B
from .. import lp
from .. import oracle as O

PROP = "C11"
RULE = (
    "membership: coefficients, constants and behaviour values all symbolic (small shapes, QF_NRA) or concrete coefficients "
    "(larger shapes, QF_LRA); the Boolean returned on each path must equal the conjunction of the inequalities at the given "
    "values (boundary included), ValueError iff a constrained variable is unassigned; emptiness: constants symbolic, answer "
    "must equal the exact projection's verdict; consistency with refines on a combined harness"
)
ASSUMPTIONS = [
    "membership harness: no LP involved; symbolic coefficient products are exact real products (float rounding only via replay on dyadic witnesses)",
    "emptiness: linprog = exact LP; thin infeasibility under HiGHS tolerances only via replay",
]
BOUNDS = {"quick": {"symbolic-coefficient shapes": "<=2 terms x <=3 vars", "concrete-coefficient shapes": "<=4 terms x <=4 vars"}, "thorough": {"symbolic-coefficient shapes": "<=3 terms x <=3 vars", "concrete-coefficient shapes": "<=5 terms x <=5 vars"}}
OPTS = {"quick": {"tier_budget_s": 200, "max_paths": 4000, "job_budget_s": 60, "witness_rate": 0.5}, "thorough": {"tier_budget_s": 1800, "max_paths": 30000, "job_budget_s": 400}}
REACH = {"quick": ["True", "False", "VE", "empty:True", "empty:False", "consistency", "symbolic-coefficients", "empty-sequence"]}


def jobs(tier, seed):
    rng = random.Random(seed * 7919 + 11)
    out = []
    # symbolic coefficients: which variables each term may mention (pattern), which are assigned
    pats = []
    names = ["x", "y", "z"]
    for nt in (1, 2) if tier == "quick" else (1, 2, 3):
        for nv in (1, 2, 3):
            pats.append((nt, names[:nv]))
    for nt, vs in pats:
        for missing in [[]] + [[v] for v in vs]:
            for extra in ([], ["q"]):
                if tier == "quick" and nt * len(vs) >= 6 and (missing or extra):
                    continue
                out.append({"kind": "member-symcoef", "nt": nt, "vars": vs, "missing": missing, "extra": extra})
    # concrete coefficients
    alpha = [-2, -1, 0, 0, 1, 2, 0.5]
    n = 120 if tier == "quick" else 4000
    for i in range(n):
        nv = rng.choice([2, 3, 4])
        vs = ["x", "y", "z", "w"][:nv]
        terms = [B.rterm(rng, vs, alpha) for _ in range(rng.choice([1, 2, 3, 4]))]
        missing = [rng.choice(vs)] if rng.random() < 0.2 else []
        out.append({"kind": "member-concrete", "terms": terms, "vars": vs, "missing": missing})
    # emptiness
    n = 160 if tier == "quick" else 5000
    for i in range(n):
        nv = rng.choice([1, 2, 3])
        vs = ["x", "y", "z"][:nv]
        terms = [B.rterm(rng, vs, alpha) for _ in range(rng.choice([1, 2, 3, 4]))]
        if rng.random() < 0.5:
            terms.append({k: -v for k, v in terms[0].items()})
        out.append({"kind": "empty", "terms": terms})
    # lists without any variable (what a cancelling rename or a refinement to a constant constraint leaves behind): the
    # rows read 0 <= c, the list is empty iff some c is negative
    for terms in ([{}], [{}, {}], [{}, {"x": 1}], [{"x": 1}, {}, {"x": -1}]):
        out.append({"kind": "empty", "terms": terms})
    # emptiness asked in sequence for two lists that agree in their first four significant digits (one feasible,
    # one infeasible by 2e-3): the answers must not depend on what was asked before
    for big in (1000, 2048):
        for order in ((0, 1), (1, 0)):
            out.append({"kind": "empty-sequence", "terms": [{"x": 1, "y": 1}, {"x": -1, "y": -1}], "pairs": [[big, -big], [big, -big - 2 ** -9]], "order": list(order)})
    # consistency with refinement
    n = 80 if tier == "quick" else 2500
    for i in range(n):
        vs = ["x", "y"]
        L = [B.rterm(rng, vs, alpha) for _ in range(rng.choice([1, 2, 3]))]
        R = [B.rterm(rng, vs, alpha) for _ in range(rng.choice([1, 2]))]
        if rng.random() < 0.4:
            R = [dict(L[0])]
        out.append({"kind": "consistency", "L": L, "R": R, "vars": vs})
    return out


def run(ctx, job):
    P = B.P()
    kind = job["kind"]
    if kind.startswith("member"):
        if kind == "member-symcoef":
            ctx.tag("symbolic-coefficients")
            vs = job["vars"]
            coefs = [{v: ctx.const(f"a{i}_{v}") for v in vs} for i in range(job["nt"])]
            consts = [ctx.const(f"c{i}") for i in range(job["nt"])]
            terms = [P.PolyhedralTerm({B.Var(v): coefs[i][v] for v in vs}, consts[i]) for i in range(job["nt"])]
        else:
            vs = job["vars"]
            coefs = [dict(t) for t in job["terms"]]
            consts = [ctx.const(f"c{i}") for i in range(len(coefs))]
            terms = [P.PolyhedralTerm({B.Var(v): c for v, c in coefs[i].items()}, consts[i]) for i in range(len(coefs))]
        tl = P.PolyhedralTermList(terms)
        vals = {v: ctx.const(f"v_{v}") for v in vs if v not in job["missing"]}
        for v in job.get("extra", []):
            vals[v] = ctx.const(f"v_{v}")
        beh = {B.Var(v): x for v, x in vals.items()}
        E = O.E
        # reference: which variables are constrained (non-zero coefficient) on this path
        def nonzero(c):
            z = E.toz(c)
            return z != 0

        constrained_missing = z3.Or(*[nonzero(cf.get(v, 0)) for cf in coefs for v in job["missing"]]) if job["missing"] else z3.BoolVal(False)
        try:
            ans = tl.contains_behavior(beh)
        except ValueError:
            ctx.obligation("valueerror-iff-constrained-variable-unassigned", z3.Not(constrained_missing))
            return {"cls": "VE"}
        except Exception as e:
            ctx.expect("only-documented-exceptions", False, info=B.classify(e) + "@" + B.innermost_pacti_frame(e))
            return {"cls": B.classify(e)}
        ctx.obligation("no-valueerror-means-all-constrained-assigned", constrained_missing)
        ref = []
        for cf, c in zip(coefs, consts):
            s = z3.RealVal(0)
            for v, a in cf.items():
                if v in vals:
                    s = s + E.toz(a) * E.toz(vals[v])
            ref.append(s <= E.toz(c))
        ref = z3.And(*ref)
        ans = bool(ans)
        ctx.obligation("membership-answer-exact", z3.Not(ref) if ans else ref)
        return {"cls": str(ans), "res": {"cmp": ans}}
    if kind == "empty-sequence":
        ctx.tag("empty-sequence")
        answers = []
        for idx in job["order"]:
            conc = {f"c{i}": v for i, v in enumerate(job["pairs"][idx])}
            tl = B.mk_tl(B.Pinned(ctx, conc), job["terms"], "c")
            ans = bool(tl.is_empty())
            answers.append(ans)
            ctx.expect("emptiness-independent-of-earlier-queries", ans == (idx == 1), info=f"list {idx} asked in order {job['order']}: is_empty={ans}")
        return {"cls": "empty-sequence", "res": {"cmp": answers}}
    if kind == "empty":
        tl = B.mk_tl(ctx, job["terms"], "c")
        try:
            ans = bool(tl.is_empty())
        except Exception as e:
            ctx.expect("only-documented-exceptions", False, info=B.classify(e) + "@" + B.innermost_pacti_frame(e))
            return {"cls": B.classify(e)}
        names = O.names_of(tl)
        A, b = O.matrix_of(tl, names)
        wrong_if_claimed_empty, wrong_if_claimed_nonempty = lp.feasibility_claims(ctx.mode, A, b)
        ctx.tag(f"empty:{ans}")
        ctx.obligation("emptiness-answer-exact", wrong_if_claimed_empty if ans else wrong_if_claimed_nonempty)
        return {"cls": f"empty:{ans}", "res": {"cmp": ans}}
    # consistency: contained in L and L refines R  =>  contained in R
    ctx.tag("consistency")
    L = B.mk_tl(ctx, job["L"], "l")
    R = B.mk_tl(ctx, job["R"], "r")
    beh = {B.Var(v): ctx.const(f"v_{v}") for v in job["vars"]}
    try:
        inL = bool(L.contains_behavior(beh))
        ref = bool(L.refines(R))
        inR = bool(R.contains_behavior(beh))
    except Exception as e:
        ctx.expect("only-documented-exceptions", False, info=B.classify(e) + "@" + B.innermost_pacti_frame(e))
        return {"cls": B.classify(e)}
    if inL and ref and not inR:
        # R's violated row must be violated by no more than the refinement tolerance
        E = O.E
        viol = []
        for coefs, c in O.rows_of(R):
            s = sum((E.toz(a) * E.toz(beh[B.Var(v)]) for v, a in coefs.items()), z3.RealVal(0))
            viol.append(s > E.toz(c) + O.margin(c))
        ctx.obligation("membership-consistent-with-refinement", z3.Or(*viol))
    else:
        ctx.expect("membership-consistent-with-refinement", True)
    return {"cls": f"{inL}/{ref}/{inR}", "res": {"cmp": [inL, ref, inR]}}


def culprit(job, consts, label, rec):
    return job["kind"]
