"""C12 — optimisation over a contract returns the true optimum, None iff unbounded."""
from __future__ import annotations

import random
from fractions import Fraction

import z3

from .. import build as B
from .. import cshapes as CS
from .. import lp
from .. import oracle as O

PROP = "C12"
RULE = (
    "job = (contract coefficient pattern, objective string with <=3 small-integer coefficients, direction | variable bounds); "
    "contract constants symbolic; value r must equal the exact optimum (own projection, 1e-6 relative), None iff feasible and "
    "unbounded in that direction, ValueError iff infeasible; bounds are (min, max)"
)
ASSUMPTIONS = [
    "objective coefficients concrete (they become the LP cost vector)",
    "linprog = exact LP with documented status codes; HiGHS status quirks only via replay",
    "the oracle computes the optimum with its own instantiation of the (z3-validated) projection routine",
]
BOUNDS = {"quick": {"variables": "<=4", "terms": "<=2 a + <=3 g", "objective coefficients": [-3, -2, -1, 1, 2, 3]}, "thorough": {"variables": "<=5", "terms": "<=3 a + <=4 g", "objective coefficients": [-3, -2, -1, 1, 2, 3]}}
OPTS = {"quick": {"tier_budget_s": 200, "max_paths": 3000, "job_budget_s": 60, "witness_rate": 0.6}, "thorough": {"tier_budget_s": 1800, "max_paths": 20000, "job_budget_s": 300}}
REACH = {"quick": ["value", "None", "VE", "bounds", "unconstrained-contract"]}
REL = Fraction(1, 10**6)


def obj_string(rng, coefs):
    parts = []
    for i, (v, c) in enumerate(coefs.items()):
        mag = abs(c)
        txt = v if mag == 1 else rng.choice([f"{mag}{v}", f"{mag} {v}", f"{mag}*{v}", f"{mag}.0 {v}"])
        if i == 0:
            parts.append(("-" if c < 0 else "") + txt)
        else:
            parts.append((" - " if c < 0 else " + ") + txt)
    return "".join(parts)


def jobs(tier, seed):
    rng = random.Random(seed * 7919 + 12)
    alphabet = [-2, -1, 1, 2]
    out = []
    n = 300 if tier == "quick" else 12000
    ifaces = [(["x"], ["y"]), (["x", "u"], ["y"]), (["x"], ["y", "z"])] + ([(["x", "u"], ["y", "z", "w"])] if tier == "thorough" else [])
    for i in range(n):
        ins, outs = ifaces[i % len(ifaces)]
        c = CS.rand_contract(rng, ins, outs, alphabet, na=(0, 1, 2), ng=(1, 2, 3))
        style = rng.choice(["bounded", "random", "random"])
        if i % 25 == 7:
            # a contract that constrains nothing: every behaviour is allowed, every objective is unbounded
            c = {"in": ins, "out": outs, "a": [], "g": []}
            style = "unconstrained"
        if style == "bounded":
            # box every variable so that finite optima are common
            for v in ins:
                c["a"] += [{v: 1}, {v: -1}]
            c["a"] = c["a"][:4]
            for v in outs:
                c["g"] += [{v: 1, ins[0]: -1}, {v: -1, ins[0]: 1}]
        vs = ins + outs
        k = rng.choice([1, 1, 2, 3])
        ov = rng.sample(vs, min(k, len(vs)))
        oc = {v: rng.choice([-3, -2, -1, 1, 2, 3]) for v in ov}
        if rng.random() < 0.25:
            out.append({"kind": "bounds", "c": c, "var": rng.choice(vs)})
        else:
            out.append({"kind": "optimize", "c": c, "obj": oc, "text": obj_string(rng, oc), "maximize": rng.random() < 0.5})
    # a guarantee that differs from an assumption only in an earlier coefficient (same variables, same last coefficient,
    # constants free to coincide): optimisation runs over assumptions | guarantees and must keep both
    for i in range(12 if tier == "quick" else 150):
        ins, outs = (["x", "u"], ["y"])
        k1, k2 = rng.choice([(1, 3), (1, -2), (2, 1), (-1, 2)])
        last = rng.choice([1, -1, 2])
        c = {"in": ins, "out": outs, "a": [{"x": k1, "u": last}, {"u": -1}, {"x": -1}], "g": [{"x": k2, "u": last}, {"y": 1, "x": -1}, {"y": -1}]}
        oc = {rng.choice(["x", "u", "y"]): rng.choice([-1, 1, 2])}
        if i % 3 == 0:
            out.append({"kind": "bounds", "c": c, "var": rng.choice(["x", "u"])})
        else:
            out.append({"kind": "optimize", "c": c, "obj": oc, "text": obj_string(rng, oc), "maximize": rng.random() < 0.5})
    for pin in PINNED:
        out.append(dict(pin, kind="optimize"))
    out.extend(_presolve_jobs())
    # an unsatisfiable contract asked about variables that no constraint mentions (declared but free, or foreign):
    # the answer is ValueError, not "unbounded"
    for i in range(16 if tier == "quick" else 200):
        ins, outs = ifaces[i % len(ifaces)]
        t = B.rterm(rng, ins, alphabet)
        c = {"in": ins, "out": outs + ["q"], "a": [t, {k: -v for k, v in t.items()}], "g": [B.rterm(rng, ins + outs, alphabet, must=outs)] if i % 2 else []}
        free = rng.choice(["q", "foreign"]) if i % 4 else "q"
        if i % 3 == 0:
            out.append({"kind": "bounds", "c": c, "var": "q"})
        else:
            oc = {free: rng.choice([-2, -1, 1, 3])}
            out.append({"kind": "optimize", "c": c, "obj": oc, "text": obj_string(rng, oc), "maximize": rng.random() < 0.5})
    return out


# concrete instances (constants fixed): in symbolic runs the LP stub passes concrete problems to the real HiGHS
PINNED = [
    # HiGHS' presolve calls this feasible, unbounded problem infeasible (found by an independent reviewer's random probing)
    {"c": {"in": ["x", "y", "z"], "out": [], "a": [{"x": 2, "z": 2}, {"x": 1, "y": 2, "z": 2}, {"x": -1, "y": -2, "z": -2}], "g": []}, "conc": {"pa0": -1, "pa1": 0, "pa2": 2}, "obj": {"x": -2, "y": -2}, "text": "-2x - 2y", "maximize": False},
    {"c": {"in": ["x", "y", "z"], "out": [], "a": [{"x": 2, "z": 2}, {"x": 1, "y": 2, "z": 2}, {"x": -1, "y": -2, "z": -2}], "g": []}, "conc": {"pa0": -1, "pa1": 0, "pa2": 2}, "obj": {"x": 1}, "text": "x", "maximize": True},
]


# more instances of the same kind, found by random probing of scipy's linprog (status 2 with presolve, status 3
# without): (A, b, c) of  min c.x  s.t.  A x <= b.  Each is asked as a minimisation, as the mirrored maximisation,
# and — for single-variable objectives — through get_variable_bounds.
PRESOLVE_INSTANCES = [
    ([[0, -2, 1], [0, -1, 0], [-1, -2, -1], [1, 1, -2]], [1, -2, 2, 1], [0, -1, 0]),
    ([[2, 2, -2], [1, 0, 0], [2, -1, 2], [0, 0, -2], [-1, -1, -2]], [-1, -1, 3, 0, 2], [1, 0, -1]),
    ([[-1, -2, 2], [2, 1, -1], [2, 0, 0], [0, -1, -2]], [0, 0, -1, -2], [1, -2, 0]),
    ([[0, -2, 1], [-1, -2, 2], [2, 2, 1], [2, 1, -1]], [1, 3, -1, 1], [0, 0, 2]),
    ([[2, -1, -1], [-1, 1, 1], [1, 0, 0]], [3, 0, 0], [2, 1, 0]),
    ([[1, -2, 1], [-2, -2, 0], [0, 2, 2], [-1, 2, -1]], [2, -1, -1, 3], [0, 2, 1]),
    ([[1, 0, 1], [-1, 1, 1], [2, -2, -1], [1, -2, 0]], [1, 3, 3, -1], [1, 2, 0]),
    ([[-2, 1, -2], [1, 0, -1], [-2, 0, 0], [-1, -1, 2]], [3, -2, -2, 2], [1, 0, -1]),
    ([[0, 2, 2, -2], [0, 0, -2, 0], [2, 0, -1, 2], [-2, 0, 0, -2]], [2, 1, 3, 3], [0, -1, 0, 0]),
    ([[0, 2, -2], [-1, -1, 2], [2, -1, -2], [-1, 0, 0]], [1, 3, 0, 2], [0, 0, -2]),
]


def _obj_text(obj):
    parts = []
    for i, (v, c) in enumerate(obj.items()):
        mag = abs(c)
        txt = v if mag == 1 else f"{mag}{v}"
        parts.append((("-" if c < 0 else "") if i == 0 else (" - " if c < 0 else " + ")) + txt)
    return "".join(parts)


def _presolve_jobs():
    out = []
    for A, b, c in PRESOLVE_INSTANCES:
        names = [f"x{j}" for j in range(len(c))]
        rows = [{names[j]: a for j, a in enumerate(r) if a} for r in A]
        spec = {"in": names, "out": [], "a": rows, "g": []}
        conc = {f"pa{i}": v for i, v in enumerate(b)}
        obj = {names[j]: v for j, v in enumerate(c) if v}
        neg = {k: -v for k, v in obj.items()}
        out.append({"kind": "optimize", "c": spec, "conc": conc, "obj": obj, "text": _obj_text(obj), "maximize": False})
        out.append({"kind": "optimize", "c": spec, "conc": conc, "obj": neg, "text": _obj_text(neg), "maximize": True})
        # the bounded direction of the same objective
        out.append({"kind": "optimize", "c": spec, "conc": conc, "obj": obj, "text": _obj_text(obj), "maximize": True})
        if len(obj) == 1:
            out.append({"kind": "bounds", "c": spec, "conc": conc, "var": next(iter(obj))})
    return out


class _Pinned:
    """Context wrapper that hands out the pinned constants instead of symbols."""

    def __init__(self, ctx, conc):
        self._ctx, self._conc = ctx, conc

    def __getattr__(self, n):
        return getattr(self._ctx, n)

    def const(self, name, lo=None, hi=None):
        if name in self._conc:
            return float(self._conc[name])
        return self._ctx.const(name, lo, hi)


def exact_opt(rows, names, obj, maximize):
    """(feas, values): optimum = min(values) when maximizing / max(values) when minimizing; [] = unbounded."""
    A, b = O.matrix_of(rows, names)
    if maximize:
        feas, uppers = lp.max_over(A, b, [obj.get(n, 0) for n in names])
        return feas, uppers
    feas, uppers = lp.max_over(A, b, [-obj.get(n, 0) for n in names])
    return feas, [-u for u in uppers]


def check_value(ctx, label, r, rows, names, obj, maximize):
    feas, vals = exact_opt(rows, names, obj, maximize)
    E = O.E
    if r is None:
        ctx.obligation(label + "none-iff-unbounded-over-nonempty-set", z3.BoolVal(True) if vals else z3.Not(feas))
        return
    rz = E.toz(r)
    tol = E.q(REL) * (1 + O.zabs(rz))
    if not vals:
        ctx.obligation(label + "value-but-unbounded", feas)
        return
    if maximize:
        good = z3.And(feas, *[rz <= v + tol for v in vals], z3.Or(*[v <= rz + tol for v in vals]))
    else:
        good = z3.And(feas, *[rz >= v - tol for v in vals], z3.Or(*[v >= rz - tol for v in vals]))
    ctx.obligation(label + "value-is-the-exact-optimum", z3.Not(good))


def run(ctx, job):
    c = B.mk_contract(_Pinned(ctx, job["conc"]) if job.get("conc") else ctx, job["c"], "p")
    if not job["c"]["a"] and not job["c"]["g"]:
        ctx.tag("unconstrained-contract")
    rows = list(O.rows_of(c.a)) + list(O.rows_of(c.g))
    names = O.names_of(rows)
    if job["kind"] == "bounds":
        ctx.tag("bounds")
        v = job["var"]
        if v not in names:
            names = names + [v]
        try:
            lo, hi = c.get_variable_bounds(v)
        except ValueError:
            A, b = O.matrix_of(rows, names)
            ctx.obligation("valueerror-iff-infeasible", lp.feasibility_claims(ctx.mode, A, b)[0])
            return {"cls": "VE"}
        except Exception as e:
            ctx.expect("only-documented-exceptions", False, info=B.classify(e) + "@" + B.innermost_pacti_frame(e))
            return {"cls": B.classify(e)}
        check_value(ctx, "min-", lo, rows, names, {v: 1}, False)
        check_value(ctx, "max-", hi, rows, names, {v: 1}, True)
        # every behaviour lies within the bounds
        E = O.E
        if lo is not None:
            ctx.obligation("behaviours-above-min", z3.And(O.holds(rows), O.pt(v) < E.toz(lo) - E.q(REL) * (1 + O.zabs(E.toz(lo)))))
        if hi is not None:
            ctx.obligation("behaviours-below-max", z3.And(O.holds(rows), O.pt(v) > E.toz(hi) + E.q(REL) * (1 + O.zabs(E.toz(hi)))))
        return {"cls": "value", "res": [lo, hi]}
    for v in job["obj"]:
        if v not in names:
            names = names + [v]
    try:
        r = c.optimize(job["text"], maximize=job["maximize"])
    except ValueError:
        A, b = O.matrix_of(rows, names)
        ctx.obligation("valueerror-iff-infeasible", lp.feasibility_claims(ctx.mode, A, b)[0])
        return {"cls": "VE"}
    except Exception as e:
        ctx.expect("only-documented-exceptions", False, info=B.classify(e) + "@" + B.innermost_pacti_frame(e))
        return {"cls": B.classify(e)}
    check_value(ctx, "", r, rows, names, job["obj"], job["maximize"])
    return {"cls": "None" if r is None else "value", "res": r}


def culprit(job, consts, label, rec):
    return "optimize"
