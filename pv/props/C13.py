"""C13 — operations are pure: operands unchanged, results independent of history.

Histories are handled by one inductive step per operation: from an arbitrary valid state
(operands with symbolic constants, module state = the state at import) run one operation,
then assert (i) every operand / argument list is unchanged, (ii) module-level state is
unchanged, (iii) the result shares no mutable object with an operand, (iv) running the same
operation again on the same path gives an equal result.  (i)+(ii) make "state = import
state" an invariant, so (iv) extends to any later point of any session.
"""
from __future__ import annotations

import random

import z3

from .. import build as B
from .. import cshapes as CS
from .. import oracle as O
from .. import shims

PROP = "C13"
RULE = (
    "job = (operation, operand coefficient patterns, option values); constants symbolic; per path (also when the operation "
    "raises): deep snapshot of every operand, argument list and module-level state before == after (constants provably "
    "equal), identity walk result vs operands disjoint on mutable objects, second run of the same call returns an equal result"
)
ASSUMPTIONS = [
    "one inductive step per operation instead of enumerated histories; the invariant 'module state = import state' is itself asserted",
    "Var objects, numbers and strings count as immutable; IoContract.simplify() is a documented in-place mutator and is excluded",
    "linprog / sympy stubs as everywhere; a fresh-interpreter comparison is made by the replays",
]
BOUNDS = {"quick": {"variables": "<=5", "terms": "<=2 a, <=3 g"}, "thorough": {"variables": "<=6", "terms": "<=2 a, <=3 g"}}
OPTS = {"quick": {"tier_budget_s": 230, "max_paths": 1500, "job_budget_s": 60, "witness_rate": 0.3}, "thorough": {"tier_budget_s": 2400, "max_paths": 20000, "job_budget_s": 400}}
OPS = ["compose", "quotient", "merge", "merge-source", "compose-source", "elim-chain", "parse-pair", "tl-simplify-shared", "nested-le", "contract-simplify", "refines", "rename", "rename-direct", "rename-noop", "copy", "tl-simplify", "elim-refine", "elim-relax", "optimize", "bounds", "machine-dict", "string-dict", "parse", "contains", "is-empty", "tl-ops", "evaluate"]
REACH = {"quick": ["returned", "raised"] + ["op:" + o for o in OPS]}


def jobs(tier, seed):
    rng = random.Random(seed * 7919 + 13)
    alphabet = [-2, -1, 1, 2]
    out = []
    n = 9 if tier == "quick" else 90
    for i in range(n):
        for op in OPS:
            w = rng.choice(["cascade", "shared-input", "independent", "cascade-wide"])
            c1, c2 = CS.compose_pair(rng, w, alphabet)
            job = {"kind": op, "op": op, "c1": c1, "c2": c2, "simplify": rng.random() < 0.5, "tactics": rng.choice([[1, 2, 3, 4, 5], [5, 1], [2], [], None]), "pick": rng.random()}
            if op == "quotient":
                job["c1"] = CS.rand_contract(rng, ["x"], ["z"], alphabet, na=(0, 1, 2))
                job["c2"] = CS.rand_contract(rng, ["x"], ["y"], alphabet, na=(0, 1))
                job["add"] = rng.choice([[], ["x"], ["y"]])
            if op in ("merge", "refines"):
                job["c2"] = CS.rand_contract(rng, c1["in"], c1["out"], alphabet)
            if op == "compose":
                job["keep"] = [v for v in c1["out"] + c2["out"] if rng.random() < 0.3]
            if op in ("merge-source", "compose-source"):
                # the second operand has an empty input list (a source), or an empty output list (a sink)
                if rng.random() < 0.6:
                    job["c2"] = {"in": [], "out": ["s"], "a": [], "g": [{"s": rng.choice([-1, 1])}]}
                else:
                    job["c2"] = {"in": ["s"], "out": [], "a": [{"s": rng.choice([-1, 1])}], "g": []}
            if op == "elim-chain":
                # a chain of two-variable rows: tactic 4 has to recurse through a second eliminated variable
                sg = rng.choice([-1, 1])
                job["chain"] = {"terms": [{"x": sg * rng.choice([1, 2]), "z": rng.choice([-1, 1])}], "ctx": [{"x": sg, "y": -sg}, {"y": sg, "w": rng.choice([-1, 1])}], "elim": ["x", "y"]}
                job["tactics"] = rng.choice([[4], [4], [1, 4], [4, 5]])
            if op == "parse-pair":
                job["texts"] = rng.choice([["x <= 1e5", "x <= 1 e5"], ["2x + y <= 3", "2 x+y<=3"], ["x - 1e1 y <= 2", "x - 1 e1 y <= 2"], ["|x| <= 4", "| x | <= 4"]])
            out.append(job)
    return out


from ..purity import mutable_ids, same, snap  # noqa: E402,F401


def _captured(fn):
    """Mutable state a callable carries: functools.partial arguments, defaults, closure cells."""
    import functools

    out = []
    if isinstance(fn, functools.partial):
        out.append(("partial", repr(fn.args), repr(sorted(fn.keywords.items()))))
        fn = fn.func
    out.append(("defaults", repr(getattr(fn, "__defaults__", None)), repr(getattr(fn, "__kwdefaults__", None))))
    cells = getattr(fn, "__closure__", None) or ()
    vals = []
    for c in cells:
        try:
            v = c.cell_contents
            vals.append(repr(v) if isinstance(v, (list, dict, set, tuple, int, float, str)) else type(v).__name__)
        except ValueError:
            vals.append("<empty>")
    out.append(("closure", vals))
    return out


def _module_containers(mod):
    """Sizes/contents of module-level lists, dicts and sets (caches show up here)."""
    out = []
    for name, v in sorted(vars(mod).items()):
        if name.startswith("__"):
            continue
        if isinstance(v, (list, set, dict)):
            out.append((mod.__name__, name, len(v), repr(v) if len(repr(v)) < 200 else None))
    return out


def _pacti_modules():
    import sys

    return [m for n, m in sorted(sys.modules.items()) if (n == "pacti" or n.startswith("pacti.")) and m is not None]


def _class_containers():
    """Mutable class attributes of pacti classes (memo tables hung on a class show up here)."""
    out = []
    for m in _pacti_modules():
        for cname, cls in sorted(vars(m).items()):
            if isinstance(cls, type) and getattr(cls, "__module__", "").startswith("pacti"):
                for an, av in sorted(vars(cls).items()):
                    if isinstance(av, (list, set, dict)) and not an.startswith("__"):
                        out.append((cname, an, len(av)))
    return out


def module_state():
    import numpy as np
    import pacti.contracts.polyhedral_iocontract as PC
    import pacti.terms.polyhedra.polyhedra as P
    import pacti.terms.polyhedra.serializer as S
    import pacti.terms.polyhedra.syntax.grammar as G

    return {
        "P.TACTICS_ORDER": list(P.TACTICS_ORDER),
        "PC.TACTICS_ORDER": list(PC.TACTICS_ORDER),
        "TACTICS": sorted(P.PolyhedralTermList.TACTICS),
        "TACTICS-ids": [id(P.PolyhedralTermList.TACTICS[k]) for k in sorted(P.PolyhedralTermList.TACTICS)],
        "TACTICS-captured": [_captured(P.PolyhedralTermList.TACTICS[k]) for k in sorted(P.PolyhedralTermList.TACTICS)],
        "module-level-containers": [x for m in _pacti_modules() for x in _module_containers(m)],
        "class-level-containers": _class_containers(),
        "grammar": [id(G.expression), id(G.terms), id(G.term), id(G.abs_term), id(G.floating_point_number)],
        "grammar-actions": [len(getattr(G.expression, "parseAction", [])), len(getattr(G.terms, "parseAction", []))],
        "tolerances": (S.float_closeness_relative_tolerance, S.float_closeness_absolute_tolerance),
        "np-print": repr(sorted(np.get_printoptions().items())),
    }


def run(ctx, job):
    import pacti.terms.polyhedra.serializer as S
    from pacti.contracts import PolyhedralIoContract

    P = B.P()
    E = O.E
    op = job["op"]
    ctx.tag("op:" + op)
    c1 = B.mk_contract(ctx, job["c1"], "p")
    c2 = B.mk_contract(ctx, job["c2"], "q")
    tactics = None if job["tactics"] is None else list(job["tactics"])
    keep = list(job.get("keep", []))
    add = [B.Var(v) for v in job.get("add", [])]
    elim = [B.Var(v) for v in (job["c1"]["out"][:1])]
    names = job["c1"]["in"] + job["c1"]["out"]
    beh = {B.Var(v): ctx.const(f"v_{v}") for v in names}
    text = None
    operands = {"c1": c1, "c2": c2, "tactics": tactics, "keep": keep, "add": add, "elim": elim, "beh": beh}

    def call():
        if op == "compose":
            return c1.compose_tactics(c2, keep, job["simplify"], tactics)[0]
        if op == "quotient":
            return c1.quotient_tactics(c2, add, job["simplify"], tactics)[0]
        if op in ("merge", "merge-source"):
            return c1.merge(c2)
        if op == "compose-source":
            return c1.compose_tactics(c2, [], job["simplify"], tactics)[0]
        if op == "elim-chain":
            ch = job["chain"]
            return chain_tl.elim_vars_by_refining(chain_cx, [B.Var(v) for v in ch["elim"]], simplify=job["simplify"], tactics_order=tactics)[0]
        if op == "parse-pair":
            first = S.polyhedral_termlist_from_string(job["texts"][0])
            second = S.polyhedral_termlist_from_string(job["texts"][1])
            return [P.PolyhedralTermList(first), P.PolyhedralTermList(second)]
        if op == "refines":
            return bool(c1.refines(c2))
        if op == "rename":
            return c1.rename_variables([(job["c1"]["in"][0], "renamed"), (job["c1"]["out"][0], "renamed2")])
        if op == "rename-direct":
            src = (job["c1"]["in"] + job["c1"]["out"])[int(job["pick"] * len(job["c1"]["in"] + job["c1"]["out"]))]
            tgt = "renamed" if job["simplify"] else ([v for v in (job["c1"]["in"] if src in job["c1"]["in"] else job["c1"]["out"]) if v != src] or ["renamed"])[0]
            return c1.rename_variable(B.Var(src), B.Var(tgt))
        if op == "rename-noop":
            # renames that change nothing (source = target, or a source the contract does not have) still return a new object
            v0 = (job["c1"]["in"] + job["c1"]["out"])[int(job["pick"] * len(job["c1"]["in"] + job["c1"]["out"]))]
            if job["simplify"]:
                return c1.rename_variable(B.Var(v0), B.Var(v0))
            return c1.rename_variable(B.Var("absent"), B.Var("renamed"))
        if op == "copy":
            return c1.copy()
        if op == "tl-simplify":
            return c1.g.simplify(c1.a)
        if op == "tl-simplify-shared":
            # the list shares terms with its context
            return shared_tl.simplify(c1.a)
        if op == "nested-le":
            from pacti.contracts.polyhedral_iocontract import NestedPolyhedra

            n1 = NestedPolyhedra([c1.g, c1.a | c1.g], False)
            n2 = NestedPolyhedra([c1.g | c2.g, c1.g], False)
            return [bool(n1 <= n2), bool(n2 <= n1)]
        if op == "contract-simplify":
            # IoContract.simplify() is the documented in-place mutator: hash and equality must follow the new state
            k = PolyhedralIoContract(c1.a, P.PolyhedralTermList(c1.g.terms + [t.copy() for t in c1.a.terms]), c1.inputvars, c1.outputvars, simplify=False)
            h0 = hash(k)
            k.simplify()
            twin = k.copy()
            return [bool(k == twin), hash(k) == hash(twin), h0 is not None]
        if op == "elim-refine":
            return c1.g.elim_vars_by_refining(c1.a, elim, simplify=job["simplify"], tactics_order=tactics)[0]
        if op == "elim-relax":
            return c1.g.elim_vars_by_relaxing(c1.a, elim, simplify=job["simplify"], tactics_order=tactics)[0]
        if op == "optimize":
            return c1.optimize(f"{job['c1']['out'][0]} + 2 {job['c1']['in'][0]}", maximize=job["simplify"])
        if op == "bounds":
            return list(c1.get_variable_bounds(job["c1"]["out"][0]))
        if op == "machine-dict":
            return PolyhedralIoContract.from_dict(c1.to_machine_dict(), simplify=False)
        if op == "string-dict":
            d = c1.to_dict()
            return [d["input_vars"], d["output_vars"], len(d["assumptions"]), len(d["guarantees"])]
        if op == "parse":
            return P.PolyhedralTermList(S.polyhedral_termlist_from_string(parse_text))
        if op == "contains":
            return bool((c1.a | c1.g).contains_behavior(beh))
        if op == "is-empty":
            return bool((c1.a | c1.g).is_empty())
        if op == "tl-ops":
            return [c1.g | c2.g, c1.g - c2.g, c1.g & c1.g, c1.g.get_terms_with_vars(elim), c1.g.rename_variable(elim[0], B.Var("w9"))]
        if op == "evaluate":
            return c1.g.evaluate(beh)
        raise ValueError(op)

    parse_text = "2 x + |y - 3| <= 4 z"
    shared_tl = None
    if op == "tl-simplify-shared":
        shared_tl = P.PolyhedralTermList([t.copy() for t in c1.a.terms] + [t.copy() for t in c1.g.terms])
        operands["shared_tl"] = shared_tl
    chain_tl = chain_cx = None
    if op == "elim-chain":
        chain_tl = B.mk_tl(ctx, job["chain"]["terms"], "ct")
        chain_cx = B.mk_tl(ctx, job["chain"]["ctx"], "cc")
        operands["chain_tl"] = chain_tl
        operands["chain_cx"] = chain_cx
    if op == "string-dict":
        ctx.eng.path_state["literal_tokens"] = False
    before = {k: snap(v) for k, v in operands.items()}
    ms_before = module_state()
    raised = None
    res = None
    try:
        res = call()
    except ValueError as e:
        raised = B.classify(e)
    except Exception as e:
        raised = B.classify(e)
    ctx.tag("raised" if raised else "returned")
    if op == "contract-simplify" and raised is None:
        ctx.expect("equal-contracts-hash-equal-after-in-place-simplify", (not res[0]) or res[1], info="c.simplify(); c == c.copy() but hashes differ")
    if op == "parse-pair" and raised is None:
        # history independence of the parser: the same second string parsed in the reverse order of calls
        try:
            alone = P.PolyhedralTermList(S.polyhedral_termlist_from_string(job["texts"][1]))
            first_again = P.PolyhedralTermList(S.polyhedral_termlist_from_string(job["texts"][0]))
            ctx.expect("parse-result-independent-of-earlier-parses", same(ctx, snap(res[1]), snap(alone)) and same(ctx, snap(res[0]), snap(first_again)), info=str(job["texts"]))
            # and the two spellings differ exactly when their meanings differ (checked on the real parser in C09);
            # here: a string with a space inside a number must not be read as the number
            if job["texts"] == ["x <= 1e5", "x <= 1 e5"] or job["texts"] == ["x - 1e1 y <= 2", "x - 1 e1 y <= 2"]:
                ctx.expect("space-inside-number-changes-the-reading", not same(ctx, snap(res[0]), snap(res[1])), info=str(job["texts"]))
        except Exception as e:
            ctx.expect("parse-result-independent-of-earlier-parses", False, info=B.classify(e))
    after = {k: snap(v) for k, v in operands.items()}
    for k in operands:
        ctx.expect("operand-unchanged", same(ctx, before[k], after[k]), info=f"{op}:{k}")
    ctx.expect("module-state-unchanged", module_state() == ms_before, info=op)
    if raised is None:
        # (iii) no shared mutable state
        shared = set(mutable_ids(res)) & set(mutable_ids(list(operands.values())))
        ctx.expect("result-shares-no-mutable-state", not shared, info=f"{op}: {len(shared)} shared objects")
        # (iv) same call again
        try:
            res2 = call()
            ctx.expect("repeated-call-equal-result", same(ctx, snap(res), snap(res2)), info=op)
        except Exception as e:
            ctx.expect("repeated-call-equal-result", False, info=f"{op}: second call raised {B.classify(e)}")
        after2 = {k: snap(v) for k, v in operands.items()}
        for k in operands:
            ctx.expect("operand-unchanged-after-second-call", same(ctx, before[k], after2[k]), info=f"{op}:{k}")
    else:
        # an error leaves all operands usable: the same call raises the same class again
        try:
            call()
            ctx.expect("repeated-failing-call-fails-alike", False, info=op)
        except Exception as e:
            ctx.expect("repeated-failing-call-fails-alike", B.classify(e) == raised, info=f"{op}: {raised} then {B.classify(e)}")
    out = res
    if isinstance(res, list):
        out = None
    return {"cls": raised or "OK", "res": out if not isinstance(out, bool) else {"cmp": out}}


def culprit(job, consts, label, rec):
    return job["op"]
