"""C14 — failures are reported only through the documented exceptions.

Self-contained: re-runs a seeded subset of the other harnesses' shapes in census mode
(all paths explored, exception class of every call classified, semantic obligations
skipped), adds adversarial shapes, and enumerates every single-field deletion / kind
change of a valid contract dictionary and file entry in both representations.
"""
from __future__ import annotations

import copy
import importlib
import json
import os
import random
import shutil
import tempfile

import z3

from .. import build as B
from .. import cshapes as CS
from .. import oracle as O
from .. import purity

PROP = "C14"
SETUP = {"stub_str": "list-only"}
RULE = (
    "census jobs: shapes of C01-C04, C07-C13, C15-C17 with all constants symbolic, every feasible path's outcome class "
    "recorded, any class outside the documented set is a counterexample whose model is the input; adversarial jobs: empty "
    "lists, single-variable constraints, unbounded/degenerate LP contexts, more eliminated variables than context rows, "
    "cancelling coefficients, real (unstubbed) error-message formatting; dictionary jobs: every single-field deletion or "
    "kind change of a valid contract dictionary / file entry, both representations, enumerated exhaustively"
)
ASSUMPTIONS = [
    "documented set: IncompatibleArgsError, ValueError, PolyhedralSyntaxException, PolyhedralSyntaxConvexException, ContractFormatError",
    "census mode skips the semantic obligations of the borrowed harnesses (they are decided by those properties' own checks)",
    "dictionary faults use concrete numbers (the fault position and kind are what is enumerated); real json, real files",
]
BOUNDS = {"quick": {"census sample": "~25 shapes per borrowed property", "dictionary faults": "exhaustive single faults on 2 base contracts x 2 representations x 3 entry points"}, "thorough": {"census sample": "~120 shapes per borrowed property", "dictionary faults": "same, 6 base contracts"}}
OPTS = {"quick": {"tier_budget_s": 480, "max_paths": 1500, "job_budget_s": 40, "witness_rate": 0.1}, "thorough": {"tier_budget_s": 2400, "max_paths": 20000, "job_budget_s": 300, "witness_rate": 0.2}}
REACH = {"quick": ["OK", "VE", "IAE", "SYNTAX", "CONVEX", "CFE", "census", "adversarial", "dict-fault", "file-fault", "rejected"]}
BORROW = ["C01", "C02", "C03", "C04", "C07", "C08", "C09", "C10", "C11", "C12", "C15", "C16", "C17"]
DOCUMENTED = {"OK", "VE", "IAE", "SYNTAX", "CONVEX", "CFE"}


class CensusCtx:
    """Delegates to the real context but keeps only the exception-class expectations."""

    def __init__(self, ctx):
        self._ctx = ctx

    def __getattr__(self, n):
        return getattr(self._ctx, n)

    def obligation(self, label, negated_property, info=None):
        return True

    def expect(self, label, ok, info=None):
        if "exception" in label or "does-not-raise" in label or "errors" in label:
            return self._ctx.expect("census-" + label, ok, info)
        return True

    def provable(self, f):
        return self._ctx.provable(f)

    def tag(self, t):
        return None


BASE_CONTRACTS = [
    {"input_vars": ["x"], "output_vars": ["y"], "assumptions": [{"constant": 2.0, "coefficients": {"x": 1.0}}], "guarantees": [{"constant": 0.0, "coefficients": {"y": 1.0, "x": -2.0}}, {"constant": 5.0, "coefficients": {"y": -1.0}}]},
    {"input_vars": ["u", "v"], "output_vars": ["w"], "assumptions": [], "guarantees": [{"constant": 1.5, "coefficients": {"w": 1.0, "u": 0.5, "v": -1.0}}]},
    {"input_vars": ["x"], "output_vars": [], "assumptions": [{"constant": 1.0, "coefficients": {"x": 1.0}}, {"constant": 1.0, "coefficients": {"x": -1.0}}], "guarantees": []},
    {"input_vars": [], "output_vars": ["y", "z"], "assumptions": [], "guarantees": [{"constant": 0.0, "coefficients": {"y": 1.0, "z": -1.0}}, {"constant": 0.0, "coefficients": {"y": -1.0, "z": 1.0}}]},
    {"input_vars": ["a", "b", "c"], "output_vars": ["d"], "assumptions": [{"constant": 3.0, "coefficients": {"a": 1.0, "b": 1.0, "c": 1.0}}], "guarantees": [{"constant": 10.0, "coefficients": {"d": 2.0, "a": -1.0}}]},
    {"input_vars": ["x"], "output_vars": ["y"], "assumptions": [{"constant": 0.25, "coefficients": {"x": -0.5}}], "guarantees": [{"constant": 1e-3, "coefficients": {"y": 1e3}}]},
]
WRONG = {"none": None, "str": "oops", "list": [1], "dict": {"k": 1}, "int": 7, "bool": True}


def string_form(machine):
    from pacti.contracts import PolyhedralIoContract

    return PolyhedralIoContract.from_dict(copy.deepcopy(machine), simplify=False).to_dict()


def fault_sites(d, machine):
    """All single-field deletions / kind changes: (path, kind) with path a list of keys / indices."""
    sites = []
    for k in ("assumptions", "guarantees", "input_vars", "output_vars"):
        sites.append(([k], "delete"))
        for w in WRONG:
            if w == "list":
                continue
            sites.append(([k], w))
        for i, item in enumerate(d[k]):
            for w in WRONG:
                if (w == "str" and not (machine and k in ("assumptions", "guarantees"))) or (w == "dict" and machine and k in ("assumptions", "guarantees")):
                    continue
                sites.append(([k, i], w))
            if machine and k in ("assumptions", "guarantees"):
                for f in ("constant", "coefficients"):
                    sites.append(([k, i, f], "delete"))
                    for w in WRONG:
                        if (f == "constant" and w == "int") or (f == "coefficients" and w == "dict"):
                            continue
                        sites.append(([k, i, f], w))
                for var in item["coefficients"]:
                    for w in ("none", "str", "list", "dict", "bool"):
                        sites.append(([k, i, "coefficients", var], w))
    return sites


def _at(d, path):
    cur = d
    for p in path:
        cur = cur[p]
    return cur


def apply_fault(d, path, kind):
    d = copy.deepcopy(d)
    cur = d
    for p in path[:-1]:
        cur = cur[p]
    if kind == "delete":
        if isinstance(cur, list):
            cur.pop(path[-1])
        else:
            del cur[path[-1]]
    else:
        cur[path[-1]] = copy.deepcopy(WRONG[kind])
    return d


def jobs(tier, seed):
    rng = random.Random(seed * 7919 + 14)
    out = []
    per = 25 if tier == "quick" else 120
    for prop in BORROW:
        mod = importlib.import_module(f"pv.props.{prop}")
        js = mod.jobs("quick" if tier == "quick" else "thorough", seed)
        rng.shuffle(js)
        n_take = per * (4 if prop == "C04" else 1)  # elimination shapes are cheap and reach most raise sites
        picked = js[:n_take]
        # raise sites that only particular inputs reach are always part of the census: constant divisions (a zero divisor
        # is the one ParseFatalException of the grammar)
        if prop == "C09":
            picked += [j for j in js[n_take:] if "division" in j["kind"]]
        for j in picked:
            out.append({"kind": "census:" + prop, "prop": prop, "job": j})
    # adversarial shapes
    adv = []
    E = {"in": [], "out": [], "a": [], "g": []}
    for op in ("compose", "quotient", "merge", "refines", "optimize", "bounds", "simplify", "elim-refine", "elim-relax", "contains", "is-empty", "to-strings", "rename"):
        adv.append({"op": op, "c1": {"in": ["x"], "out": ["y"], "a": [], "g": []}, "c2": {"in": ["y"], "out": ["z"], "a": [], "g": []}})
        adv.append({"op": op, "c1": dict(E), "c2": dict(E)})
        adv.append({"op": op, "c1": {"in": ["x"], "out": ["y"], "a": [{"x": 1}], "g": [{"y": 1}]}, "c2": {"in": ["y"], "out": ["z"], "a": [{"y": -1}], "g": [{"z": 1}]}})
        adv.append({"op": op, "c1": {"in": ["x"], "out": ["y"], "a": [{"x": 1}, {"x": -1}], "g": [{"y": 1, "x": -1}, {"y": -1, "x": 1}, {"y": 1, "x": -1}]}, "c2": {"in": ["y", "x"], "out": ["z"], "a": [{"y": 1, "x": -1}], "g": [{"z": 1, "y": -1, "x": 1}]}})
        adv.append({"op": op, "c1": {"in": ["x", "u"], "out": ["y", "w"], "a": [], "g": [{"y": 1, "w": 1, "x": -1}]}, "c2": {"in": ["y", "w"], "out": ["z"], "a": [{"y": 1}], "g": [{"z": 1, "y": -1, "w": -1}]}})
    # chains of two-variable context rows that dead-end (every tactic must decline, none may crash)
    for depth in (2, 3):
        for sg in (1, -1):
            ev = ["y1", "y2", "y3", "y4"][: depth + 1]
            rows = [{ev[i]: sg, ev[i + 1]: -sg} for i in range(depth)]
            c1 = {"in": ["x"], "out": ev, "a": [], "g": rows}
            c2 = {"in": ev[:1], "out": ["z"], "a": [{ev[0]: sg}], "g": [{"z": 1, ev[0]: -1}]}
            for op in ("compose", "elim-refine", "elim-relax", "quotient"):
                adv.append({"op": op, "c1": c1, "c2": c2})
            # the same dead end met by two terms in a row (the second must still be processed normally)
            c3 = {"in": ev[:1] + ["a", "b"], "out": ["z"], "a": [{ev[0]: sg, "a": 1}, {ev[0]: -sg, "b": 1}], "g": [{"z": 1, ev[0]: -1}]}
            if depth == 2:
                for op in ("compose", "elim-refine", "elim-relax"):
                    adv.append({"op": op, "c1": c1, "c2": c3})
    # an assumption that can only be refined to the unsatisfiable constant constraint while no guarantee survives: the
    # result's lists hold variable-free terms only (AssertionError in reduce_polytope before the repair, defect 17)
    adv.append({"op": "compose", "c1": {"in": ["y"], "out": ["z"], "a": [{"y": 0.5}], "g": [{"y": 1, "z": 0.5}]}, "c2": {"in": ["x"], "out": ["y"], "a": [], "g": [{"y": 1}]}})
    adv.append({"op": "compose", "c1": {"in": ["y"], "out": ["z"], "a": [{"y": -1}], "g": [{"y": -1, "z": 1}]}, "c2": {"in": ["x"], "out": ["y"], "a": [], "g": [{"y": -2}]}})
    # a dividend guarantee that a tactic transforms although the quotient as a whole fails (leftover internal variable)
    adv.append({"op": "quotient", "c1": {"in": ["i"], "out": ["o", "p"], "a": [], "g": [{"o": 1, "i": -1}, {"p": 1, "i": 1}]}, "c2": {"in": ["i"], "out": ["m"], "a": [], "g": [{"m": 1, "i": -1}, {"m": -1, "i": 1}]}})
    adv.append({"op": "quotient", "c1": {"in": ["i"], "out": ["o", "p"], "a": [{"i": 1}], "g": [{"o": 1, "i": -2}, {"p": -1, "i": 1}]}, "c2": {"in": ["i"], "out": ["m"], "a": [{"i": 1}], "g": [{"m": 1, "i": -1}]}})
    for a in adv:
        for ti, tac in enumerate(([1, 2, 3, 4, 5], [5], [4], [3], [2, 1], [])):
            if a["op"] not in ("compose", "quotient", "elim-refine", "elim-relax") and ti > 0:
                continue  # the tactic order is irrelevant for the other operations
            if tier == "quick" and ti > 0 and rng.random() < 0.45:
                continue
            out.append({"kind": "adversarial:" + a["op"], **a, "tactics": tac, "simplify": rng.random() < 0.5})
    # dictionary / file faults (exhaustive single faults)
    bases = BASE_CONTRACTS[:2] if tier == "quick" else BASE_CONTRACTS
    for bi, base in enumerate(bases):
        for machine in (True, False):
            d = base if machine else None
            # the string form may hold fewer entries than the machine form (opposite pairs print as one string)
            sites = fault_sites(base if machine else string_form(base), machine)
            for path, kind in sites:
                for entry in ("validate", "from_dict", "file") if machine else ("validate", "file"):
                    out.append({"kind": "dict-fault", "base": bi, "machine": machine, "path": path, "fault": kind, "entry": entry})
        for kind in ("no-type", "no-name", "no-data", "bad-type", "entry-not-dict", "top-not-list", "data-none"):
            for machine in (True, False):
                out.append({"kind": "file-fault", "base": bi, "machine": machine, "fault": kind})
    # the concrete fault enumeration is cheap: run it first so that a slow machine cuts the census, not this part
    out.sort(key=lambda jb: 0 if jb["kind"] in ("dict-fault", "file-fault") else 1)
    return out


def adversarial(ctx, job, hold):
    import pacti.terms.polyhedra.serializer as S

    P = B.P()
    op = job["op"]
    c1 = B.mk_contract(ctx, job["c1"], "p")
    c2 = B.mk_contract(ctx, job["c2"], "q")
    hold["operands"] = {"c1": c1, "c2": c2}
    hold["before"] = purity.guard(ctx, hold["operands"])
    tac = list(job["tactics"])
    vs = (job["c1"]["in"] + job["c1"]["out"]) or ["x"]
    elim = [B.Var(v) for v in (job["c1"]["out"] or ["y"])] + [B.Var("unrelated")]
    if op == "compose":
        return c1.compose_tactics(c2, None, job["simplify"], tac)
    if op == "quotient":
        return c1.quotient_tactics(c2, None, job["simplify"], tac)
    if op == "merge":
        return c1.merge(c2)
    if op == "refines":
        return c1.refines(c1.copy())
    if op == "optimize":
        return c1.optimize(vs[0], maximize=job["simplify"])
    if op == "bounds":
        return c1.get_variable_bounds(vs[-1])
    if op == "simplify":
        return (c1.a | c1.g).simplify(c2.a)
    if op == "elim-refine":
        return (c1.g | c2.a).elim_vars_by_refining(c1.a | c2.g, elim, simplify=job["simplify"], tactics_order=tac)
    if op == "elim-relax":
        return (c1.g | c2.a).elim_vars_by_relaxing(c1.a | c2.g, elim, simplify=job["simplify"], tactics_order=tac)
    if op == "contains":
        return (c1.a | c1.g).contains_behavior({B.Var(v): ctx.const(f"v_{v}") for v in vs})
    if op == "is-empty":
        return (c1.a | c1.g | c2.a).is_empty()
    if op == "to-strings":
        ctx.eng.path_state["literal_tokens"] = False
        d = c1.to_dict()
        return str(c1), d
    if op == "rename":
        return c1.rename_variables([(vs[0], "fresh"), ("absent", vs[-1])])
    raise ValueError(op)


def _well_formed(ctx, job, res):
    """A value that is returned (instead of an error) holds term lists made of terms only."""
    P = B.P()
    stack, bad = [res], []
    while stack:
        o = stack.pop()
        if isinstance(o, (list, tuple)):
            stack.extend(o)
        elif isinstance(o, P.PolyhedralTermList):
            bad += [type(t).__name__ for t in o.terms if not isinstance(t, P.PolyhedralTerm)]
        elif hasattr(o, "a") and hasattr(o, "g") and hasattr(o, "inputvars"):
            stack.extend([o.a, o.g])
    ctx.expect("a-returned-object-is-well-formed", not bad, info=f"{job['op']}: term list contains {bad}")


def meaning_rows(c):
    return list(O.rows_of(c.a)), list(O.rows_of(c.g))


def run(ctx, job):
    kind = job["kind"]
    if kind.startswith("census:"):
        ctx.tag("census")
        mod = importlib.import_module(f"pv.props.{job['prop']}")
        out = mod.run(CensusCtx(ctx), job["job"]) or {}
        cls = out.get("cls", "OK")
        if str(cls).startswith("ESC:"):
            ctx.expect("only-documented-exceptions", False, info=f"{job['prop']}: {cls}")
            return {"cls": cls}
        # collapse property-specific success classes
        return {"cls": cls if cls in DOCUMENTED else "OK"}
    if kind.startswith("adversarial:"):
        ctx.tag("adversarial")
        hold = {}
        try:
            res = adversarial(ctx, job, hold)
            _well_formed(ctx, job, res)
        except Exception as e:
            cls = B.classify(e)
            if cls.startswith("ESC:"):
                ctx.expect("only-documented-exceptions", False, info=f"{job['op']}: {cls}@{B.innermost_pacti_frame(e)}")
            if "before" in hold:
                purity.check_unchanged(ctx, hold["before"], hold["operands"], "an-error-leaves-all-operands-usable", info=f"{job['op']} raised {cls};")
            return {"cls": cls}
        return {"cls": "OK"}
    # ---- dictionary and file faults (concrete) -------------------------------------------------
    import pacti.terms.polyhedra.serializer as S
    import pacti.utils.fileio as FIO
    from pacti.contracts import PolyhedralIoContract

    base = BASE_CONTRACTS[job["base"]]
    machine = job["machine"]
    good = copy.deepcopy(base) if machine else string_form(base)
    reference = PolyhedralIoContract.from_dict(copy.deepcopy(base)) if machine else PolyhedralIoContract.from_strings(**copy.deepcopy(good))
    tmp = tempfile.mkdtemp(prefix="pv_c14_")
    import contextlib
    import io

    quiet = contextlib.redirect_stdout(io.StringIO())  # validate_contract_dict prints the offending object
    quiet.__enter__()
    try:
        if kind == "file-fault":
            ctx.tag("file-fault")
            entry = {"name": "c", "type": "PolyhedralIoContract_machine" if machine else "PolyhedralIoContract", "data": good}
            f = job["fault"]
            data = [entry]
            if f == "no-type":
                del entry["type"]
            elif f == "no-name":
                del entry["name"]
            elif f == "no-data":
                del entry["data"]
            elif f == "bad-type":
                entry["type"] = "Unknown"
            elif f == "entry-not-dict":
                data = ["oops"]
            elif f == "top-not-list":
                data = entry
            elif f == "data-none":
                entry["data"] = None
            fn = os.path.join(tmp, "f.json")
            with open(fn, "w") as fh:
                json.dump(data, fh)
            try:
                FIO.read_contracts_from_file(fn)
            except Exception as e:
                cls = B.classify(e)
                ctx.expect("file-entry-fault-rejected-with-documented-error", cls in ("CFE", "VE", "IAE"), info=f"{f}: {cls}@{B.innermost_pacti_frame(e)}")
                ctx.tag("rejected")
                return {"cls": cls if cls in DOCUMENTED else "ESC"}
            ctx.expect("file-entry-fault-rejected-with-documented-error", False, info=f"{f}: accepted")
            return {"cls": "OK"}
        ctx.tag("dict-fault")
        bad = apply_fault(good, job["path"], job["fault"])
        label = "dictionary-fault-rejected-or-same-meaning"
        info = f"{'machine' if machine else 'string'} {job['path']} -> {job['fault']} via {job['entry']}"
        try:
            if job["entry"] == "validate":
                S.validate_contract_dict(bad, "c", machine_representation=machine)
                got = PolyhedralIoContract.from_dict(bad) if machine else PolyhedralIoContract.from_strings(**bad)
            elif job["entry"] == "from_dict":
                got = PolyhedralIoContract.from_dict(bad)
            elif job["entry"] == "from_strings":
                got = PolyhedralIoContract.from_strings(**bad)
            else:
                fn = os.path.join(tmp, "f.json")
                with open(fn, "w") as fh:
                    json.dump([{"name": "c", "type": "PolyhedralIoContract_machine" if machine else "PolyhedralIoContract", "data": bad}], fh)
                got = FIO.read_contracts_from_file(fn)[0][0]
        except Exception as e:
            cls = B.classify(e)
            # from_strings(**bad) with a missing keyword is a Python-level TypeError of the caller's own making
            # a field of the wrong kind is rejected with ContractFormatError / ValueError; the string errors are the
            # documented answer only where a string was replaced by another string (string representation)
            str_for_str = (not machine) and job["fault"] == "str" and isinstance(_at(good, job["path"]), str)
            allowed = ("CFE", "VE", "IAE") + (("SYNTAX", "CONVEX") if str_for_str or job["fault"] == "delete" else ())
            ok = cls in allowed or (job["entry"] == "from_strings" and job["fault"] == "delete" and len(job["path"]) == 1 and cls == "ESC:TypeError")
            ctx.expect(label, ok, info=f"{info}: {cls}@{B.innermost_pacti_frame(e)}")
            ctx.tag("rejected")
            return {"cls": cls if cls in DOCUMENTED else "ESC"}
        if job["fault"] != "delete" and not ((not machine) and job["fault"] == "str" and isinstance(_at(good, job["path"]), str)):
            # a field of another kind must not be read at all (a string is a sequence of characters, True is a number ...)
            ctx.expect("wrong-kind-field-rejected", False, info=info + ": accepted")
            return {"cls": "OK"}
        # accepted: must mean the same as the valid dictionary (e.g. a deleted redundant constraint does not)
        same = [v.name for v in got.inputvars] == [v.name for v in reference.inputvars] and [v.name for v in got.outputvars] == [v.name for v in reference.outputvars]
        if same:
            ra, rg = meaning_rows(reference)
            ga, gg = meaning_rows(got)
            names = O.names_of(ra, rg, ga, gg)
            s = z3.Solver()
            s.add(O.box(names))
            s.add(z3.Or(z3.And(O.holds(ra), O.broken(ga)), z3.And(O.holds(ga), O.broken(ra)), z3.And(O.holds(ra), O.holds(rg), O.broken(gg)), z3.And(O.holds(ga), O.holds(gg), O.broken(rg))))
            same = str(s.check()) == "unsat"
        ctx.expect(label, same, info=info + ": accepted and read as something else")
        ctx.tag("accepted-same-meaning")
        return {"cls": "OK"}
    finally:
        quiet.__exit__(None, None, None)
        shutil.rmtree(tmp, ignore_errors=True)


def culprit(job, consts, label, rec):
    for o in rec["obligations"]:
        if o["status"] == "fail":
            return str(o.get("info", ""))[:160]
    return job["kind"]
