"""C15 — composition and merging never forget an interface-level guarantee."""
from __future__ import annotations

import random

import z3

from .. import build as B
from .. import cshapes as CS
from .. import oracle as O
from . import C08

PROP = "C15"
RULE = (
    "job = (compose|merge, wiring, coefficient patterns whose guarantees overlap: identical, scaled or mutually implied "
    "interface-level rows on both sides, constants free so that 'both sides imply each other' is a solver-found point); "
    "per returning path: every operand guarantee over result-interface variables is implied by R.a ∧ R.g; with no "
    "connection the composition is exact"
)
ASSUMPTIONS = ["coefficients concrete, constants symbolic", "linprog = exact LP, sympy.solve = exact row reduction; float round-off only through replay"]
BOUNDS = {"quick": {"variables": "<=5", "terms": "<=2 a, <=3 g per contract", "alphabet": [-2, -1, 1, 2]}, "thorough": {"variables": "<=6", "terms": "<=2 a, <=4 g per contract", "alphabet": [-3, -2, -1, 1, 2, 3, 0.5]}}
OPTS = {"quick": {"tier_budget_s": 220, "max_paths": 2000, "job_budget_s": 60}, "thorough": {"tier_budget_s": 2000, "max_paths": 20000, "job_budget_s": 300}}
REACH = {"quick": ["OK", "op:compose", "op:merge", "no-connection", "connected", "overlap:identical", "overlap:scaled", "kept-connection"]}

# (c1 ins, c1 outs, c2 ins, c2 outs, variables on which both guarantees may overlap)
CW = {
    "shared-input": (["x"], ["y"], ["x"], ["z"], ["x"]),
    "shared-input-2": (["x", "u"], ["y"], ["x", "u"], ["z"], ["x", "u"]),
    "independent": (["x"], ["y"], ["u"], ["v"], []),
    "cascade": (["x"], ["y"], ["y"], ["z"], []),
    "cascade-shared-input": (["x"], ["y"], ["x", "y"], ["z"], ["x"]),
}


def jobs(tier, seed):
    rng = random.Random(seed * 7919 + 15)
    alphabet = BOUNDS[tier]["alphabet"]
    out = []
    n = 110 if tier == "quick" else 1800
    ws = list(CW)
    for i in range(n):
        w = ws[i % len(ws)]
        i1, o1, i2, o2, ov = CW[w]
        c1 = CS.rand_contract(rng, i1, o1, alphabet, na=(0, 1), ng=(1, 2))
        c2 = CS.rand_contract(rng, i2, o2, alphabet, na=(0, 1), ng=(1, 2))
        overlap = "none"
        if ov:
            overlap = rng.choice(["identical", "scaled", "implied", "none", "near"])
            t = B.rterm(rng, ov, alphabet)
            if overlap == "identical":
                c1["g"].append(dict(t))
                c2["g"].append(dict(t))
            elif overlap == "scaled":
                c1["g"].append(dict(t))
                c2["g"].append({k: 2 * v for k, v in t.items()})
            elif overlap == "near":
                # two different interface-level guarantees that agree up to the sixth digit of one coefficient
                t = B.rterm(rng, i1 + o1[:0] if False else ov, alphabet)
                t2 = dict(t)
                k0 = sorted(t2)[0]
                t2[k0] = t2[k0] * (1 + 8e-6)
                c1["g"].append(dict(t))
                c2["g"].append(t2)
            elif overlap == "implied":
                c1["g"].append(dict(t))
                c2["g"].append(dict(t))
                c2["g"].append({k: -v for k, v in t.items()})
        if w == "cascade-shared-input" and i % 2 == 0:
            # an interface-level guarantee of the consumer (z vs x) that the producer's guarantee implies through the
            # connection (z vs y, y vs x): each side may look redundant given the other, the composition must keep it
            overlap = "via-connection"
            sg = rng.choice([1, -1])
            k1, k2 = rng.choice([1, 1, 2]), rng.choice([1, 1, 2])
            c1["g"].append({"y": sg, "x": -sg * k1})
            c2["g"].append({"z": sg, "y": -sg * k2})
            c2["g"].append({"z": sg, "x": -sg * k1 * k2})
        # keeping a connection variable makes it an output of the result: guarantees that mention it become interface-level
        conn = [v for v in o1 if v in i2] + [v for v in o2 if v in i1]
        keep = [v for v in conn if rng.random() < 0.5]
        out.append({"kind": f"compose:{w}:{overlap}", "op": "compose", "wiring": w, "overlap": overlap, "c1": c1, "c2": c2, "order": rng.choice(["12", "21"]), "simplify": rng.random() < 0.7, "keep": keep})
    # merging with overlapping guarantees (reuses C08's builder, incl. shared constants)
    for j in C08.jobs(tier, seed + 1)[: (60 if tier == "quick" else 800)]:
        out.append(dict(j, kind="merge:" + j["kind"], op="merge", overlap="dup" if "dup" in j["kind"] else "none"))
    return out


def run(ctx, job):
    ctx.tag("op:" + job["op"])
    ctx.tag("overlap:" + job["overlap"])
    if job["op"] == "merge":
        c1, c2 = C08.build(ctx, job)
    else:
        c1 = B.mk_contract(ctx, job["c1"], "p")
        c2 = B.mk_contract(ctx, job["c2"], "q")
    try:
        if job["op"] == "merge":
            r = c1.merge(c2)
        else:
            first, second = (c1, c2) if job["order"] == "12" else (c2, c1)
            r = first.compose(second, list(job.get("keep", [])), job["simplify"])
            if job.get("keep"):
                ctx.tag("kept-connection")
    except ValueError as e:
        return {"cls": B.classify(e)}
    except Exception as e:
        ctx.expect("only-documented-exceptions", False, info=B.classify(e) + "@" + B.innermost_pacti_frame(e))
        return {"cls": B.classify(e)}
    iface = set(v.name for v in r.inputvars) | set(v.name for v in r.outputvars)
    names = O.names_of(c1.a, c1.g, c2.a, c2.g, r.a, r.g)
    bx = O.box(names)
    for who, c in (("c1", c1), ("c2", c2)):
        for k, t in enumerate(c.g.terms):
            if set(v.name for v in t.variables) <= iface:
                ctx.obligation("interface-level-guarantee-kept", z3.And(bx, O.holds(r.a), O.holds(r.g), O.broken([t])), info=f"{who}.g[{k}]")
    connected = job["op"] == "compose" and (set(job["c1"]["out"]) & set(job["c2"]["in"]) or set(job["c2"]["out"]) & set(job["c1"]["in"]))
    if job["op"] == "compose":
        ctx.tag("connected" if connected else "no-connection")
    if job["op"] == "compose" and not connected:
        a12 = C08.both(c1.a, c2.a)
        g12 = C08.both(c1.g, c2.g)
        ctx.obligation("exact-assumptions-forward", z3.And(bx, O.holds(r.a), O.broken(a12)))
        ctx.obligation("exact-assumptions-backward", z3.And(bx, O.holds(a12), O.broken(r.a)))
        ctx.obligation("exact-guarantees-forward", z3.And(bx, O.holds(r.a), O.holds(r.g), O.broken(g12)))
        ctx.obligation("exact-guarantees-backward", z3.And(bx, O.holds(r.a), O.holds(g12), O.broken(r.g)))
    return {"cls": "OK", "res": r}


def culprit(job, consts, label, rec):
    return job["op"]
