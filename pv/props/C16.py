"""C16 — renaming variables is faithful substitution."""
from __future__ import annotations

import random

import z3

from .. import build as B
from .. import cshapes as CS
from .. import oracle as O
from .. import purity

PROP = "C16"
RULE = (
    "term level: coefficients and constant symbolic, the renamed term's coefficient map must equal the substituted map "
    "(incl. c_s + c_t = 0 making the variable vanish); contract level: constants symbolic, (source, target) over fresh / "
    "existing input / existing output / absent / equal, mapping sequences incl. swaps through a temporary; meaning compared "
    "with the tolerant oracle under the point substitution, interface bookkeeping compared with a reference"
)
ASSUMPTIONS = ["term level: exact coefficient comparison (QF_LRA/NRA)", "contract level: coefficients concrete, constants symbolic; constructor re-simplifies (exact LP stub)"]
BOUNDS = {"quick": {"variables": "<=4", "terms": "<=2 a, <=3 g"}, "thorough": {"variables": "<=5", "terms": "<=2 a, <=3 g"}}
OPTS = {"quick": {"tier_budget_s": 200, "max_paths": 3000, "job_budget_s": 60, "witness_rate": 0.5}, "thorough": {"tier_budget_s": 1500, "max_paths": 20000, "job_budget_s": 300}}
REACH = {"quick": ["OK", "IAE", "term", "case:fresh", "case:existing-input", "case:existing-output", "case:absent", "case:same", "case:cancelling", "sequence"]}


def jobs(tier, seed):
    rng = random.Random(seed * 7919 + 16)
    out = []
    # term level
    for vs in (["x"], ["x", "y"], ["x", "y", "z"]):
        for s in vs + ["q"]:
            for t in vs + ["r"]:
                out.append({"kind": "term", "vars": vs, "source": s, "target": t})
    alphabet = [-2, -1, 1, 2]
    n = 150 if tier == "quick" else 8000
    for i in range(n):
        ins, outs = rng.choice([(["x", "u"], ["y"]), (["x"], ["y", "z"]), (["x", "u"], ["y", "z"])])
        c = CS.rand_contract(rng, ins, outs, alphabet, na=(0, 1, 2), ng=(1, 2, 3))
        case = ["fresh", "existing-input", "existing-output", "absent", "same", "cancelling"][i % 6]
        src = rng.choice(ins + outs)
        if case == "fresh":
            tgt = "n"
        elif case == "existing-input":
            tgt = rng.choice([v for v in ins if v != src] or ins)
        elif case == "existing-output":
            tgt = rng.choice([v for v in outs if v != src] or outs)
        elif case == "absent":
            src, tgt = "q", rng.choice(ins + outs + ["n"])
        elif case == "cancelling":
            # merging two inputs (or two outputs) whose coefficients cancel in some constraint: a variable-free
            # constraint 0 <= c is left behind, which is unsatisfiable when c < 0
            side = outs if len(outs) > 1 else ins
            if len(side) < 2:
                side = ins if len(ins) > 1 else outs
            src, tgt = side[0], side[-1]
            k = rng.choice([1, 2])
            row = {src: k, tgt: -k}
            (c["g"] if src in outs else c["a"]).insert(0, row)
            if rng.random() < 0.5:
                c["g"].append({src: -k, tgt: k, (outs[0] if outs[0] not in (src, tgt) else ins[0]): 1})
        else:
            tgt = src
        out.append({"kind": "contract", "case": case, "c": c, "maps": [[src, tgt]], "via": rng.choice(["rename_variable", "rename_variables"])})
    # sequences: swap through a temporary, rename and back
    n = 50 if tier == "quick" else 2500
    for i in range(n):
        ins, outs = (["x", "u"], ["y", "z"])
        c = CS.rand_contract(rng, ins, outs, alphabet, na=(0, 1, 2), ng=(1, 2, 3))
        a, b = rng.choice([("x", "u"), ("y", "z")])
        seq = rng.choice([[[a, "tmp"], [b, a], ["tmp", b]], [[a, "n"], ["n", a]], [[a, "n"], [b, "m"]], [[a, "n"], ["n", "m"], ["m", a]]])
        out.append({"kind": "sequence", "case": "sequence", "c": c, "maps": seq, "via": "rename_variables"})
    return out


def ref_interface(ins, outs, maps):
    """Reference interface algebra written from the property text."""
    ins, outs = list(ins), list(outs)
    for s, t in maps:
        if s == t:
            continue
        if s in ins:
            if t in outs:
                return None
            if t in ins:
                ins.remove(s)
            else:
                ins[ins.index(s)] = t
        elif s in outs:
            if t in ins:
                return None
            if t in outs:
                outs.remove(s)
            else:
                outs[outs.index(s)] = t
    return ins, outs


def subst_point(names, maps):
    """For each original variable name, the name whose value it takes after the renamings."""
    cur = {n: n for n in names}
    for s, t in maps:
        for n in cur:
            if cur[n] == s:
                cur[n] = t
    return cur


def holds_under(rows, sigma, slack=0):
    E = O.E
    out = []
    for coefs, c in rows:
        e = z3.RealVal(0)
        for n, a in coefs.items():
            e = e + E.toz(a) * O.pt(sigma.get(n, n))
        out.append(e <= E.toz(c) + E.q(slack))
    return z3.And(*out) if out else z3.BoolVal(True)


def broken_under(rows, sigma):
    E = O.E
    out = []
    for coefs, c in rows:
        e = z3.RealVal(0)
        for n, a in coefs.items():
            e = e + E.toz(a) * O.pt(sigma.get(n, n))
        out.append(e > E.toz(c) + O.margin(c))
    return z3.Or(*out) if out else z3.BoolVal(False)


def run(ctx, job):
    P = B.P()
    E = O.E
    from pacti.utils.errors import IncompatibleArgsError

    if job["kind"] == "term":
        ctx.tag("term")
        vs = job["vars"]
        co = {v: ctx.const(f"a_{v}") for v in vs}
        k = ctx.const("c")
        term = P.PolyhedralTerm({B.Var(v): co[v] for v in vs}, k)
        s, t = job["source"], job["target"]
        try:
            new = term.rename_variable(B.Var(s), B.Var(t))
        except Exception as e:
            ctx.expect("only-documented-exceptions", False, info=B.classify(e) + "@" + B.innermost_pacti_frame(e))
            return {"cls": B.classify(e)}
        # reference coefficient map
        ref = {v: E.toz(co[v]) for v in vs}
        if s in ref and s != t:
            ref[t] = ref.get(t, z3.RealVal(0)) + ref.pop(s)
        got = {v.name: E.toz(c) for v, c in new.variables.items()}
        conds = []
        for v in set(ref) | set(got):
            conds.append(got.get(v, z3.RealVal(0)) == ref.get(v, z3.RealVal(0)))
        conds.append(E.toz(new.constant) == E.toz(k))
        ctx.obligation("renamed-term-is-substitution", z3.Not(z3.And(*conds)))
        # no zero coefficient is stored
        for v, c in new.variables.items():
            ctx.obligation("no-zero-coefficient-kept", E.toz(c) == 0, info=v.name)
        # the original term is untouched
        ctx.expect("original-term-untouched", set(v.name for v in term.variables) <= set(vs))
        return {"cls": "OK", "res": new}
    ctx.tag("case:" + job["case"])
    if job["kind"] == "sequence":
        ctx.tag("sequence")
    c = B.mk_contract(ctx, job["c"], "p")
    maps = job["maps"]
    ref = ref_interface(job["c"]["in"], job["c"]["out"], maps)
    before = purity.guard(ctx, {"contract": c})
    try:
        if job["via"] == "rename_variable" and len(maps) == 1:
            r = c.rename_variable(B.Var(maps[0][0]), B.Var(maps[0][1]))
        else:
            r = c.rename_variables([tuple(m) for m in maps])
    except IncompatibleArgsError:
        ctx.expect("IAE-exactly-for-input-output-clash", ref is None)
        return {"cls": "IAE"}
    except ValueError as e:
        # the constructor re-simplifies: unsatisfiable contracts may be rejected
        purity.check_unchanged(ctx, before, {"contract": c}, "rename-leaves-the-contract-it-is-called-on-unchanged")
        return {"cls": B.classify(e)}
    except Exception as e:
        ctx.expect("only-documented-exceptions", False, info=B.classify(e) + "@" + B.innermost_pacti_frame(e))
        return {"cls": B.classify(e)}
    ctx.expect("clash-raises-IAE", ref is not None)
    purity.check_unchanged(ctx, before, {"contract": c}, "rename-leaves-the-contract-it-is-called-on-unchanged")
    if ref is None:
        return {"cls": "OK", "res": r}
    ctx.expect("interface-updated", [v.name for v in r.inputvars] == ref[0] and [v.name for v in r.outputvars] == ref[1], info=f"{[v.name for v in r.inputvars]} {[v.name for v in r.outputvars]} vs {ref}")
    names = O.names_of(c.a, c.g)
    sigma = subst_point(names, maps)
    allnames = sorted(set(sigma.values()) | set(O.names_of(r.a, r.g)))
    bx = O.box(allnames)
    oa, og = O.rows_of(c.a), O.rows_of(c.g)
    ctx.obligation("renamed-assumptions-imply-original", z3.And(bx, O.holds(r.a), broken_under(oa, sigma)))
    ctx.obligation("original-assumptions-imply-renamed", z3.And(bx, holds_under(oa, sigma), O.broken(r.a)))
    ctx.obligation("renamed-contract-implies-original", z3.And(bx, O.holds(r.a), O.holds(r.g), broken_under(list(oa) + list(og), sigma)))
    ctx.obligation("original-contract-implies-renamed", z3.And(bx, holds_under(list(oa) + list(og), sigma), z3.Or(O.broken(r.a), O.broken(r.g))))
    if job["case"] in ("absent", "same"):
        ctx.expect("noop-keeps-interface", [v.name for v in r.inputvars] == job["c"]["in"] and [v.name for v in r.outputvars] == job["c"]["out"])
    return {"cls": "OK", "res": r}


def culprit(job, consts, label, rec):
    return "rename"
