"""C17 — compound (disjunctive) contracts behave as unions of polyhedra."""
from __future__ import annotations

import random

import z3

from .. import build as B
from .. import lp
from .. import oracle as O

PROP = "C17"
RULE = (
    "job = (1-3 alternatives per side over <=3 variables, concrete coefficients); constants of every alternative and the "
    "behaviour values symbolic; contains_behavior == disjunction, merge == intersection of unions with empty alternatives "
    "absent, <= True implies union containment, construction ValueError iff two assumption alternatives share a behaviour "
    "(touching alternatives are the solver-found boundary)"
)
ASSUMPTIONS = ["coefficients concrete, constants and behaviour values symbolic", "linprog = exact LP (is_empty, refines); float tolerances via replay only"]
BOUNDS = {"quick": {"alternatives": "<=2 per side", "terms per alternative": "<=2", "variables": "<=3"}, "thorough": {"alternatives": "<=3 per side", "terms per alternative": "<=3", "variables": "<=4"}}
OPTS = {"quick": {"tier_budget_s": 220, "max_paths": 3000, "job_budget_s": 60, "witness_rate": 0.4}, "thorough": {"tier_budget_s": 1800, "max_paths": 30000, "job_budget_s": 400}}
REACH = {"quick": ["contains:True", "contains:False", "merge:OK", "ctor:VE", "ctor:OK", "le:True", "le:False", "discarded-empty", "merged-to-nothing"]}


def rand_alts(rng, names, k, maxt, alphabet):
    return [[B.rterm(rng, names, alphabet) for _ in range(rng.randint(1, maxt))] for _ in range(k)]


def jobs(tier, seed):
    rng = random.Random(seed * 7919 + 17)
    alphabet = [-2, -1, 0, 1, 1, 2]
    maxa = 2 if tier == "quick" else 3
    maxt = 2 if tier == "quick" else 3
    out = []
    n = 90 if tier == "quick" else 450
    for i in range(n):
        names = ["x", "y", "z"][: rng.choice([1, 2, 3])]
        out.append({"kind": "contains", "alts": rand_alts(rng, names, rng.randint(1, maxa + 1), maxt, alphabet), "vars": names, "missing": rng.random() < 0.1})
    for i in range(n):
        names = ["x", "y"][: rng.choice([1, 2])]
        out.append({"kind": "ctor", "alts": rand_alts(rng, names, rng.randint(2, maxa + 1), maxt, alphabet), "vars": names})
        # touching intervals: x <= c0 | -x <= c1  (share a behaviour iff -c1 <= c0)
        if i % 5 == 0:
            out.append({"kind": "ctor", "alts": [[{"x": 1}], [{"x": -1}]], "vars": ["x"]})
    for i in range(n):
        names = ["x", "y"][: rng.choice([1, 2])]
        out.append({"kind": "le", "L": rand_alts(rng, names, rng.randint(1, maxa), maxt, alphabet), "R": rand_alts(rng, names, rng.randint(1, maxa), maxt, alphabet), "vars": names})
    # <= between nested lists asked right after the same question for alternatives that agree in four digits
    for slope in (2.0004, 1.9996):
        out.append({"kind": "le-sequence", "slope": slope})
    for i in range(n):
        # compound contracts: input x, output y; assumption alternatives are disjoint by construction
        # (x <= c, -x <= -c - gap ...) is left to the solver: alternatives over x with free constants
        A1 = [[{"x": 1}], [{"x": -1}]][: rng.choice([1, 2])]
        A2 = [[{"x": 1}], [{"x": -1}]][: rng.choice([1, 2])]
        G1 = rand_alts(rng, ["x", "y"], rng.randint(1, maxa), maxt, alphabet)
        G2 = rand_alts(rng, ["x", "y"], rng.randint(1, maxa), maxt, alphabet)
        out.append({"kind": "merge", "A1": A1, "G1": G1, "A2": A2, "G2": G2})
    # viewpoints whose guarantee alternatives can be pairwise disjoint: nothing is left of the merged guarantees
    for G1, G2 in (([[{"y": 1}]], [[{"y": -1}]]), ([[{"y": 1}], [{"y": -1, "x": 1}]], [[{"y": -1}, {"x": -1}]])):
        out.append({"kind": "merge", "A1": [[{"x": 1}]], "G1": G1, "A2": [[{"x": 1}]], "G2": G2})
    return out


def mk_alts(ctx, alts, prefix):
    return [B.mk_tl(ctx, alt, f"{prefix}{i}_") for i, alt in enumerate(alts)]


def union(tls, slack=0):
    return z3.Or(*[O.holds(tl, slack) for tl in tls]) if tls else z3.BoolVal(False)


def union_broken(tls):
    """No alternative holds within tolerance."""
    return z3.And(*[O.broken(tl) if tl.terms else z3.BoolVal(False) for tl in tls]) if tls else z3.BoolVal(True)


MODE = ["sym"]  # set per run: replays judge feasibility claims robustly (float tolerances of the LP solver)


def share_behaviour(t1, t2):
    rows = list(O.rows_of(t1)) + list(O.rows_of(t2))
    names = O.names_of(rows)
    A, b = O.matrix_of(rows, names)
    return lp.feasibility_claims(MODE[0], A, b)


def run(ctx, job):
    from pacti.contracts.polyhedral_iocontract import NestedPolyhedra, PolyhedralIoContractCompound

    E = O.E
    MODE[0] = ctx.mode
    kind = job["kind"]
    if kind == "contains":
        tls = mk_alts(ctx, job["alts"], "n")
        nest = NestedPolyhedra(tls, force_empty_intersection=False)
        vs = job["vars"][:-1] if job["missing"] and len(job["vars"]) > 1 else job["vars"]
        beh = {B.Var(v): ctx.const(f"v_{v}") for v in vs}
        try:
            ans = bool(nest.contains_behavior(beh))
        except ValueError:
            mentioned = set(O.names_of(*tls))
            ctx.expect("valueerror-only-if-variable-unassigned", bool(mentioned - set(vs)))
            return {"cls": "VE"}
        except Exception as e:
            ctx.expect("only-documented-exceptions", False, info=B.classify(e) + "@" + B.innermost_pacti_frame(e))
            return {"cls": B.classify(e)}
        ref = []
        for tl in tls:
            conj = []
            for coefs, c in O.rows_of(tl):
                conj.append(sum((E.toz(a) * E.toz(beh[B.Var(v)]) for v, a in coefs.items() if B.Var(v) in beh), z3.RealVal(0)) <= E.toz(c))
            ref.append(z3.And(*conj))
        ref = z3.Or(*ref)
        if set(O.names_of(*tls)) <= set(vs):
            ctx.obligation("contains-iff-some-alternative", z3.Not(ref) if ans else ref)
        ctx.tag(f"contains:{ans}")
        return {"cls": f"contains:{ans}", "res": {"cmp": ans}}
    if kind == "ctor":
        tls = mk_alts(ctx, job["alts"], "n")
        pairs = [share_behaviour(tls[i], tls[j]) for i in range(len(tls)) for j in range(i + 1, len(tls))]
        # rejected although no pair robustly shares a behaviour / accepted although some pair robustly does
        overlap_robust = z3.Or(*[p[0] for p in pairs])
        disjoint_robust = z3.And(*[p[1] for p in pairs])
        try:
            NestedPolyhedra(tls, force_empty_intersection=True)
        except ValueError:
            ctx.obligation("overlap-rejected-only-if-shared-behaviour", disjoint_robust)
            ctx.tag("ctor:VE")
            return {"cls": "ctor:VE"}
        except Exception as e:
            ctx.expect("only-documented-exceptions", False, info=B.classify(e) + "@" + B.innermost_pacti_frame(e))
            return {"cls": B.classify(e)}
        ctx.obligation("accepted-only-if-no-shared-behaviour", overlap_robust)
        ctx.tag("ctor:OK")
        return {"cls": "ctor:OK"}
    if kind == "le-sequence":
        P = B.P()
        X, Y = B.Var("x"), B.Var("y")
        mk = lambda s, c: P.PolyhedralTermList([P.PolyhedralTerm({Y: 1.0, X: -s}, c), P.PolyhedralTerm({X: 1.0}, 1000.0), P.PolyhedralTerm({X: -1.0}, 0.0)])  # noqa: E731
        G, same_, other = NestedPolyhedra([mk(2.0, 0.0)], False), NestedPolyhedra([mk(2.0, 0.0)], False), NestedPolyhedra([mk(job["slope"], 0.0)], False)
        first = bool(G <= same_)
        second = bool(G <= other) if job["slope"] < 2 else bool(other <= G)
        ctx.tag("le-sequence")
        ctx.expect("le-true-for-identical-alternatives", first is True)
        # y <= 2x does not refine y <= 1.9996 x on 0 <= x <= 1000 (off by 0.4 at x = 1000); likewise y <= 2.0004 x vs y <= 2 x
        ctx.expect("le-answer-independent-of-earlier-queries", second is False, info=f"slope {job['slope']}")
        return {"cls": "le-sequence", "res": {"cmp": [first, second]}}
    if kind == "le":
        L = NestedPolyhedra(mk_alts(ctx, job["L"], "l"), False)
        R = NestedPolyhedra(mk_alts(ctx, job["R"], "r"), False)
        try:
            ans = bool(L <= R)
        except Exception as e:
            ctx.expect("only-documented-exceptions", False, info=B.classify(e) + "@" + B.innermost_pacti_frame(e))
            return {"cls": B.classify(e)}
        ctx.tag(f"le:{ans}")
        if ans:
            names = O.names_of(*L.nested_termlist, *R.nested_termlist)
            ctx.obligation("le-true-implies-union-containment", z3.And(O.box(names), union(L.nested_termlist), union_broken(R.nested_termlist)))
        return {"cls": f"le:{ans}", "res": {"cmp": ans}}
    # merge of compound contracts
    X, Y = B.Var("x"), B.Var("y")
    a1, g1 = mk_alts(ctx, job["A1"], "pa"), mk_alts(ctx, job["G1"], "pg")
    a2, g2 = mk_alts(ctx, job["A2"], "qa"), mk_alts(ctx, job["G2"], "qg")
    try:
        c1 = PolyhedralIoContractCompound(NestedPolyhedra(a1, True), NestedPolyhedra(g1, False), [X], [Y])
        c2 = PolyhedralIoContractCompound(NestedPolyhedra(a2, True), NestedPolyhedra(g2, False), [X], [Y])
    except ValueError:
        return {"cls": "operand:VE"}
    try:
        r = c1.merge(c2)
    except ValueError as e:
        # assumption alternatives of the result overlap: only possible if they share a behaviour;
        # products of disjoint families are disjoint, so this must not happen
        ctx.expect("merge-of-disjoint-families-does-not-raise", False, info=B.classify(e))
        return {"cls": "merge:VE"}
    except Exception as e:
        ctx.expect("only-documented-exceptions", False, info=B.classify(e) + "@" + B.innermost_pacti_frame(e))
        return {"cls": B.classify(e)}
    ctx.tag("merge:OK")
    for which, A, Bb, res in (("assumptions", a1, a2, r.a.nested_termlist), ("guarantees", g1, g2, r.g.nested_termlist)):
        names = O.names_of(*A, *Bb, *res)
        bx = O.box(names)
        ctx.obligation(f"merged-{which}-within-both", z3.And(bx, union(res), z3.Or(union_broken(A), union_broken(Bb))))
        ctx.obligation(f"both-within-merged-{which}", z3.And(bx, union(A), union(Bb), union_broken(res)))
        if len(res) < len(A) * len(Bb):
            ctx.tag("discarded-empty")
        for k, tl in enumerate(res):
            rows = O.rows_of(tl)
            nm = O.names_of(rows)
            Am, bm = O.matrix_of(rows, nm)
            ctx.obligation(f"no-empty-alternative-in-merged-{which}", lp.feasibility_claims(ctx.mode, Am, bm)[1], info=f"alt{k}")
    ctx.expect("merged-interface", [v.name for v in r.inputvars] == ["x"] and [v.name for v in r.outputvars] == ["y"])
    # the merged lists are asked like any other: membership is the disjunction of what is left (nothing left = nothing
    # contained), and an operand's guarantees are within the merged ones only if the union says so
    # (asked only when nothing is left of one of the merged lists: the general case is the 'contains' / 'le' families)
    if r.a.nested_termlist and r.g.nested_termlist:
        return {"cls": "merge:OK"}
    beh = {X: ctx.const("v_x"), Y: ctx.const("v_y")}
    for which, nest in (("assumptions", r.a), ("guarantees", r.g)):
        if not nest.nested_termlist:
            ctx.tag("merged-to-nothing")
        try:
            ans = bool(nest.contains_behavior(beh))
        except Exception as e:
            ctx.expect("only-documented-exceptions", False, info=B.classify(e) + "@" + B.innermost_pacti_frame(e))
            continue
        alts = []
        for tl in nest.nested_termlist:
            alts.append(z3.And(*[sum((E.toz(a) * E.toz(beh[B.Var(v)]) for v, a in coefs.items()), z3.RealVal(0)) <= E.toz(c) for coefs, c in O.rows_of(tl)]))
        ref = z3.Or(*alts) if alts else z3.BoolVal(False)
        ctx.obligation(f"merged-{which}-membership-is-the-disjunction", z3.Not(ref) if ans else ref)
    try:
        le = bool(NestedPolyhedra(g1, False) <= r.g)
    except Exception as e:
        ctx.expect("only-documented-exceptions", False, info=B.classify(e) + "@" + B.innermost_pacti_frame(e))
        return {"cls": "merge:OK"}
    if le:
        names = O.names_of(*g1, *r.g.nested_termlist)
        ctx.obligation("operand-within-merged-only-if-contained", z3.And(O.box(names), union(g1), union_broken(r.g.nested_termlist)))
    return {"cls": "merge:OK"}


def culprit(job, consts, label, rec):
    return job["kind"]
