"""C18 — plot vertices are exactly the corners of the plotted slice, in boundary order."""
from __future__ import annotations

import random
from fractions import Fraction

import z3

from .. import build as B
from .. import oracle as O

PROP = "C18"
RULE = (
    "job = (constraint rows over x, y and up to two more variables with small-integer coefficients, which constants / "
    "fixed values / axis limits are symbolic, which values are supplied); real constraints_to_vertices runs with Qhull "
    "replaced by exact vertex enumeration and atan2 by the exact angular order; per returning path: every returned point "
    "satisfies all constraints and limits at the fixed values, is a corner (two independent active rows), no corner is "
    "missing (free point q), consecutive points share an edge (boundary order); ValueError iff the slice is empty or a "
    "needed variable has no value"
)
ASSUMPTIONS = [
    "coefficients concrete, constants / values / limits symbolic within the stated budget",
    "scipy.spatial.HalfspaceIntersection = exact vertex enumeration (documented contract: QhullError unless the point is clearly inside; each vertex reported once, order open)",
    "math.atan2 = exact angular order (half-plane, then sign of the cross product; QF_NRA)",
    "linprog = exact LP; the two-variable LPs of the no-interior fallback return a basic (vertex) optimum, as HiGHS does; checked by replay",
    "corner set compared as a set: the fallback and Qhull may list a corner more than once",
    "replays compare with 1e-6 absolute tolerance (Qhull and HiGHS compute in floats)",
]
BOUNDS = {
    "quick": {"variables": "x, y + <=2 fixed", "rows": "<=4 + 4 limits", "coefficients": [-2, -1, 0, 1, 2], "symbolic numbers": "<=2 per job"},
    "thorough": {"variables": "x, y + <=2 fixed", "rows": "<=5 + 4 limits", "coefficients": [-3, -2, -1, 0, 1, 2, 3], "symbolic numbers": "<=3 per job"},
}
OPTS = {
    "quick": {"tier_budget_s": 240, "max_paths": 1500, "job_budget_s": 60, "query_timeout_ms": 8000},
    "thorough": {"tier_budget_s": 2400, "max_paths": 8000, "job_budget_s": 300, "query_timeout_ms": 15000},
}
SETUP = {"plots": True}
REACH = {"quick": ["OK", "VE", "interior", "fallback", "empty-slice", "missing-value", "columns-swapped", "row-without-plot-variable", "corners:3", "corners:4", "corners:5"]}

X, Y = "x", "y"


# ---- job generation ------------------------------------------------------------------------------------------------
CURATED = [
    # (name, rows, fixed variables)
    ("triangle", [{"x": 1, "y": 1}, {"x": -1}, {"y": -1}], []),
    ("triangle-y-first", [{"y": 1, "x": 1}, {"y": -1}, {"x": -1}], []),
    ("box-cut", [{"x": 1, "y": 1}], []),
    ("box-cut-steep", [{"x": 2, "y": -1}], []),
    ("strip", [{"x": 1, "y": -1}, {"x": -1, "y": 1}], []),
    ("segment-horizontal", [{"y": 1}, {"y": -1}, {"x": 1}], []),
    ("point", [{"y": 1}, {"y": -1}, {"x": 1}, {"x": -1}], []),
    ("fixed-shift", [{"x": 1, "y": 1, "z": 2}, {"x": -1, "z": 1}], ["z"]),
    ("fixed-two", [{"x": 1, "y": 2, "z": 1, "w": -1}, {"y": -1, "w": 1}], ["z", "w"]),
    ("fixed-only-row", [{"z": 1}, {"x": 1, "y": 1}], ["z"]),
    ("fixed-only-row-two", [{"z": 1, "w": -1}, {"x": 1, "y": -2}], ["z", "w"]),
    ("hexagon", [{"x": 1, "y": 1}, {"x": -1, "y": -1}, {"x": 1, "y": -1}, {"x": -1, "y": 1}], []),
    ("only-y", [{"y": 2}], []),
    ("y-then-fixed", [{"y": 1, "z": 1}, {"x": 1, "z": -1}], ["z"]),
    ("through-corner", [{"x": 1, "y": 1}, {"x": 1, "y": -1}], []),
]


def _rand_rows(rng, alphabet, fixed, nrows):
    names = [X, Y] + fixed
    rows = []
    for _ in range(nrows):
        for _try in range(50):
            order = names[:]
            if rng.random() < 0.5:
                order = [Y, X] + fixed
            if rng.random() < 0.2:
                rng.shuffle(order)
            row = {n: rng.choice(alphabet) for n in order}
            row = {k: v for k, v in row.items() if v}
            if row:
                rows.append(row)
                break
    return rows


def jobs(tier, seed):
    rng = random.Random(seed * 7919 + 18)
    out = []
    alphabet = [-2, -1, 0, 0, 1, 2] if tier == "quick" else [-3, -2, -1, 0, 0, 1, 2, 3]
    budget = 2 if tier == "quick" else 3
    lims = [(-5, 5), (-3, 4), (0, 5), (-5, 0), (-1, 1), (2, 2), (-2, 3)]

    def finish(kind, rows, fixed, force_sym=None):
        nconst = len(rows)
        slots = [("c", i) for i in range(nconst)] + [("v", f) for f in fixed] + [("l", k) for k in ("xlo", "xhi", "ylo", "yhi")]
        sym = rng.sample(slots, min(budget, len(slots))) if force_sym is None else force_sym
        conc = {
            "c": [rng.choice([-4, -2, -1, 0, 0, 1, 2, 3, 5, 8]) for _ in range(nconst)],
            "v": {f: rng.choice([-3, -1, 0, 1, 2, 4]) for f in fixed},
            "l": dict(zip(("xlo", "xhi"), rng.choice(lims))) | dict(zip(("ylo", "yhi"), rng.choice(lims))),
        }
        return {"kind": kind, "rows": rows, "fixed": fixed, "sym": [list(s) for s in sym], "conc": conc, "supply": list(fixed), "extra_value": False, "x_in_values": False}

    reps = 3 if tier == "quick" else 8
    for name, rows, fixed in CURATED:
        for _ in range(reps):
            out.append(finish("curated:" + name, [dict(r) for r in rows], list(fixed)))
        # all row constants symbolic (up to the budget): the shape of the polygon is solver-explored
        out.append(finish("curated:" + name, [dict(r) for r in rows], list(fixed), force_sym=[("c", i) for i in range(min(budget, len(rows)))]))
    n = 70 if tier == "quick" else 1000
    for i in range(n):
        fixed = rng.choice([[], [], ["z"], ["z"], ["z", "w"]])
        rows = _rand_rows(rng, alphabet, fixed, rng.choice([1, 2, 2, 3, 3, 4] + ([5] if tier == "thorough" else [])))
        if rng.random() < 0.25 and rows:
            # an opposite pair: strips, segments, equalities
            t = rng.choice(rows)
            rows.append({k: -v for k, v in t.items()})
        out.append(finish("random", rows, fixed))
    # requests that must be refused, and harmless extras
    for i in range(12 if tier == "quick" else 80):
        fixed = rng.choice([["z"], ["z", "w"]])
        rows = _rand_rows(rng, [-2, -1, 1, 2], fixed, 2)
        j = finish("faulty", rows, fixed)
        mode = i % 4
        if mode == 0:
            j["supply"] = fixed[:-1]  # a needed value is missing (when some row mentions it)
        elif mode == 1:
            j["x_in_values"] = rng.choice([X, Y])
        elif mode == 2:
            j["extra_value"] = True  # a value for a variable no constraint mentions: harmless
        else:
            j["supply"] = []
        out.append(j)
    return out


# ---- oracle --------------------------------------------------------------------------------------------------------
def slice_rows(rows, consts, vals, lim):
    """Rows (ax, ay, rhs) of the two-dimensional slice, written from the property text (independent of pacti's code)."""
    E = O.E
    out = []
    for coefs, c in zip(rows, consts):
        rhs = E.toz(c)
        for n, a in coefs.items():
            if n not in (X, Y):
                rhs = rhs - E.q(a) * E.toz(vals[n])
        out.append((Fraction(coefs.get(X, 0)), Fraction(coefs.get(Y, 0)), rhs))
    out.append((Fraction(1), Fraction(0), E.toz(lim["xhi"])))
    out.append((Fraction(-1), Fraction(0), -E.toz(lim["xlo"])))
    out.append((Fraction(0), Fraction(1), E.toz(lim["yhi"])))
    out.append((Fraction(0), Fraction(-1), -E.toz(lim["ylo"])))
    return out


def lhs(r, px, py):
    return O.E.q(r[0]) * px + O.E.q(r[1]) * py


def inside(srows, px, py, eps):
    return z3.And(*[lhs(r, px, py) <= r[2] + eps for r in srows])


def active(r, px, py, eps):
    d = lhs(r, px, py) - r[2]
    return z3.And(d <= eps, d >= -eps)


def corner(srows, px, py, eps):
    alts = []
    for i in range(len(srows)):
        for j in range(i + 1, len(srows)):
            if srows[i][0] * srows[j][1] - srows[i][1] * srows[j][0] != 0:
                alts.append(z3.And(active(srows[i], px, py, eps), active(srows[j], px, py, eps)))
    return z3.Or(*alts) if alts else z3.BoolVal(False)


# ---- harness -------------------------------------------------------------------------------------------------------
def run(ctx, job):
    from pacti.iocontract import Var
    from pacti.terms.polyhedra import PolyhedralTerm, PolyhedralTermList
    from pacti.utils.plots import constraints_to_vertices

    E = O.E
    sym = {tuple(s) for s in job["sym"]}
    conc = job["conc"]

    def num(slot, key, default):
        if (slot, key) in sym:
            return ctx.const(f"{slot}_{key}", -50, 50)
        return float(default)

    consts = [num("c", i, conc["c"][i]) for i in range(len(job["rows"]))]
    vals = {f: num("v", f, conc["v"][f]) for f in job["fixed"]}
    lim = {k: num("l", k, conc["l"][k]) for k in ("xlo", "xhi", "ylo", "yhi")}
    if ctx.mode == "sym":
        ctx.eng.path_state["lp_assume_basic_m"] = (2,)
    terms = [PolyhedralTerm({Var(n): a for n, a in coefs.items()}, c) for coefs, c in zip(job["rows"], consts)]
    tl = PolyhedralTermList(terms)
    var_values = {Var(f): vals[f] for f in job["supply"]}
    if job["extra_value"]:
        var_values[Var("unused")] = 1.0
    if job["x_in_values"]:
        var_values[Var(job["x_in_values"])] = 0.0
    mentioned = {n for coefs in job["rows"] for n in coefs}
    missing = sorted(n for n in mentioned if n not in (X, Y) and n not in job["supply"])
    refused_by_request = bool(missing) or bool(job["x_in_values"])
    if any(X not in coefs and Y not in coefs for coefs in job["rows"]):
        ctx.tag("row-without-plot-variable")
    first = [n for coefs in job["rows"] for n in coefs if n in (X, Y)]
    try:
        xs, ys = constraints_to_vertices(tl, Var(X), Var(Y), var_values, (lim["xlo"], lim["xhi"]), (lim["ylo"], lim["yhi"]))
    except ValueError:
        if refused_by_request:
            ctx.tag("missing-value")
            return {"cls": "VE"}
        ctx.tag("empty-slice")
        srows = slice_rows(job["rows"], consts, vals, lim)
        px, py = O.pt("qx"), O.pt("qy")
        # a slice with room to spare must not be refused (in replays: 1e-6 of room, HiGHS decides thin cases its own way)
        if ctx.mode == "sym":
            nonempty = inside(srows, px, py, E.q(0))
        else:
            # rows without plot variables are plain comparisons of numbers (exact for the dyadic witnesses; a value within
            # round-off of the boundary is left to the float code)
            plane = [r for r in srows if r[0] != 0 or r[1] != 0]
            flat = [r for r in srows if r[0] == 0 and r[1] == 0]
            nonempty = z3.And(inside(plane, px, py, E.q(Fraction(-1, 10**6))), *[z3.Or(r[2] == 0, r[2] >= E.q(Fraction(1, 10**9))) for r in flat])
        ctx.obligation("valueerror-only-for-an-empty-slice", nonempty)
        return {"cls": "VE"}
    except Exception as e:
        ctx.expect("only-documented-exceptions", False, info=B.classify(e) + "@" + B.innermost_pacti_frame(e))
        return {"cls": B.classify(e)}
    if ctx.mode == "sym":
        ctx.tag("interior" if ctx.eng.path_state.get("hs_ok") else "fallback")
    if first and first[0] == Y:
        ctx.tag("columns-swapped")
    ctx.expect("refused-when-a-needed-variable-has-no-value", not refused_by_request, info=f"missing={missing} x_in_values={job['x_in_values']}")
    if refused_by_request:
        return {"cls": "OK"}
    pts = list(zip(xs, ys))
    ctx.expect("at-least-one-point-returned", len(pts) >= 1)
    if not pts:
        return {"cls": "OK"}
    srows = slice_rows(job["rows"], consts, vals, lim)
    # exact in symbolic runs; float tolerance in replays and on paths whose sub-problem became fully concrete (those go
    # to the real Qhull / HiGHS even in a symbolic run)
    exact = ctx.mode == "sym" and all(isinstance(v, E.SymReal) for p in pts for v in p)
    eps = E.q(0) if exact else E.q(Fraction(1, 10**6))
    P = [(E.toz(a), E.toz(b)) for a, b in pts]
    ctx.obligation("returned-points-satisfy-all-constraints", z3.Or(*[z3.Not(inside(srows, a, b, eps)) for a, b in P]))
    ctx.obligation("returned-points-are-corners", z3.Or(*[z3.Not(corner(srows, a, b, eps)) for a, b in P]))
    qx, qy = O.pt("qx"), O.pt("qy")
    far = E.q(0) if exact else E.q(Fraction(1, 10**5))
    differs = [z3.Or(O.zabs(qx - a) > far, O.zabs(qy - b) > far) for a, b in P]
    ctx.obligation("no-corner-missing", z3.And(inside(srows, qx, qy, E.q(0)), corner(srows, qx, qy, E.q(0)), *differs))
    # boundary order: consecutive points (cyclically) lie on a common constraint line
    n = len(P)
    if n >= 3:
        bad = []
        for i in range(n):
            a, b = P[i], P[(i + 1) % n]
            bad.append(z3.Not(z3.Or(*[z3.And(active(r, a[0], a[1], eps), active(r, b[0], b[1], eps)) for r in srows])))
        ctx.obligation("consecutive-points-share-an-edge", z3.Or(*bad))
    if ctx.mode == "sym":
        k = _distinct(ctx, P)
        ctx.tag(f"corners:{k}")
    return {"cls": "OK", "res": [v for p in pts for v in p]}


def _distinct(ctx, P):
    """Number of provably distinct returned points on this path (for the reachability table only)."""
    k = 0
    seen = []
    for a, b in P:
        if all(ctx.provable(z3.Or(a != u, b != v)) for u, v in seen):
            k += 1
            seen.append((a, b))
    return k


def culprit(job, consts, label, rec):
    return "constraints_to_vertices"
