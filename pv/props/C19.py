"""C19 — equality, hashing and copying of terms, lists and contracts are coherent."""
from __future__ import annotations

import random

import z3

from .. import build as B
from .. import cshapes as CS
from .. import oracle as O

PROP = "C19"
SETUP = {"stub_str": "list-only"}  # hashes go through the real PolyhedralTerm.__str__ (canonical tokens keep text equality faithful)
RULE = (
    "terms/lists: coefficients and constants symbolic, pairs built by single-field edits; contracts: constants symbolic, "
    "edits of inputs/outputs/one constant/term order; per path: copy equal and hash-equal, a == b implies equal hashes, "
    "symmetry, transitivity on triples, contracts differing in exactly one field compare unequal"
)
ASSUMPTIONS = [
    "formatted symbolic numbers are canonical tokens: equal values <=> equal text (0.0 vs -0.0 outside the claim)",
    "PYTHONHASHSEED fixed; hash equality is compared within one process",
    "contract copies re-simplify: compared on the path's exact arithmetic (LP stub), float ulps only via replay on dyadic data",
]
BOUNDS = {"quick": {"term variables": "<=3", "list terms": "<=3", "contract terms": "<=2 a, <=2 g"}, "thorough": {"term variables": "<=3", "list terms": "<=3", "contract terms": "<=2 a, <=3 g"}}
OPTS = {"quick": {"tier_budget_s": 200, "max_paths": 4000, "job_budget_s": 60, "witness_rate": 0.4}, "thorough": {"tier_budget_s": 1500, "max_paths": 30000, "job_budget_s": 300}}
REACH = {"quick": ["term", "list", "contract", "eq:True", "eq:False", "edit:outputs", "edit:inputs", "edit:constant", "edit:role", "compound"]}


def jobs(tier, seed):
    rng = random.Random(seed * 7919 + 19)
    out = []
    for vs in (["x"], ["x", "y"]):
        out.append({"kind": "term-pair", "vars": vs})
        out.append({"kind": "term-copy", "vars": vs})
    out.append({"kind": "term-copy", "vars": ["x", "y", "z"]})
    out.append({"kind": "term-triple", "vars": ["x"]})
    out.append({"kind": "term-renamed", "vars": ["x", "y"]})
    out.append({"kind": "term-renamed", "vars": ["x", "y", "z"]})
    # lists: concrete coefficient patterns (equal or differing in one coefficient), symbolic constants
    pats = [[{"x": 1, "y": 2}], [{"x": 1, "y": 2}, {"x": -1}], [{"x": 1}, {"x": 1}], [{"x": 2, "y": -1}, {"y": 1}, {"x": 1, "y": 1}]]
    for pa in pats:
        out.append({"kind": "list-copy", "A": pa})
        out.append({"kind": "list-pair", "A": pa, "B": pa})
        pb = [dict(t) for t in pa]
        pb[-1] = {k: (v + 1 if i == 0 else v) for i, (k, v) in enumerate(pb[-1].items())}
        out.append({"kind": "list-pair", "A": pa, "B": pb})
        if len(pa) > 1:
            out.append({"kind": "list-pair", "A": pa, "B": pa[:-1]})
            out.append({"kind": "list-order", "A": pa})
    out.append({"kind": "var"})
    alphabet = [-2, -1, 1, 2]
    n = 120 if tier == "quick" else 6000
    edits = ["none", "inputs-order", "inputs", "outputs", "outputs-order", "constant", "coefficient", "term-order", "copy", "drop-term", "simplify-in-place", "role-move"]
    for i in range(n):
        ins, outs = rng.choice([(["x", "u"], ["y"]), (["x"], ["y", "z"]), (["x", "u"], ["y", "z"])])
        c = CS.rand_contract(rng, ins, outs, alphabet, na=(0, 1, 2), ng=(1, 2))
        out.append({"kind": "contract", "c": c, "edit": edits[i % len(edits)], "pick": rng.random()})
    for i in range(12 if tier == "quick" else 400):
        out.append({"kind": "compound", "edit": ["none", "outputs", "inputs"][i % 3], "g": [[B.rterm(rng, ["x", "y"], alphabet)] for _ in range(rng.choice([1, 2]))]})
    return out


def sym_term(ctx, vs, prefix, concrete=None):
    """Term with symbolic constant; coefficients symbolic unless `concrete` gives them."""
    P = B.P()
    if concrete is not None:
        return P.PolyhedralTerm({B.Var(v): c for v, c in concrete.items()}, ctx.const(f"{prefix}_c"))
    return P.PolyhedralTerm({B.Var(v): ctx.const(f"{prefix}_{v}") for v in vs}, ctx.const(f"{prefix}_c"))


def term_equal_formula(t, u):
    E = O.E
    tv = {v.name: E.toz(c) for v, c in t.variables.items()}
    uv = {v.name: E.toz(c) for v, c in u.variables.items()}
    if set(tv) != set(uv):
        return z3.BoolVal(False)
    return z3.And(E.toz(t.constant) == E.toz(u.constant), *[tv[k] == uv[k] for k in tv])


def check_pair(ctx, a, b, label, expect_equal=None):
    """Coherence of == and hash on one pair; expect_equal: z3 formula for semantic (field-wise) equality or None."""
    try:
        e1 = bool(a == b)
        e2 = bool(b == a)
        h1, h2 = hash(a), hash(b)
    except Exception as e:
        ctx.expect(label + "eq-hash-do-not-raise", False, info=B.classify(e) + "@" + B.innermost_pacti_frame(e))
        return None
    ctx.expect(label + "equality-symmetric", e1 == e2)
    if e1:
        ctx.expect(label + "equal-objects-hash-equal", h1 == h2)
    ctx.tag(f"eq:{e1}")
    if expect_equal is not None:
        # the answer must agree with field-wise equality for all constants on this path
        ctx.obligation(label + "equality-answer-is-fieldwise-equality", z3.Not(expect_equal) if e1 else expect_equal)
    return e1


def run(ctx, job):
    P = B.P()
    kind = job["kind"]
    ctx.eng.path_state["literal_tokens"] = False  # only text equality matters for hashing
    if kind == "var":
        x1, x2, y = B.Var("x"), B.Var("x"), B.Var("y")
        ctx.expect("var-eq", x1 == x2 and not (x1 == y) and hash(x1) == hash(x2))
        ctx.tag("term")
        return {"cls": "OK"}
    if kind.startswith("term"):
        ctx.tag("term")
        vs = job["vars"]
        a = sym_term(ctx, vs, "a")
        if kind == "term-renamed":
            # a term obtained by renaming (coefficients are added, possibly cancelling) is an ordinary term:
            # equal to its copy and to the same term built directly, with equal hashes
            E = O.E
            b = a.rename_variable(B.Var(vs[0]), B.Var(vs[1]))
            r = check_pair(ctx, b, b.copy(), "term-renamed-copy-")
            ctx.expect("term-renamed-equals-its-copy", r is True)
            direct = {v: a.variables.get(B.Var(v), 0) for v in vs[1:]}
            direct[vs[1]] = a.variables.get(B.Var(vs[1]), 0) + a.variables.get(B.Var(vs[0]), 0)
            d = P.PolyhedralTerm({B.Var(v): c for v, c in direct.items()}, a.constant)
            r2 = check_pair(ctx, b, d, "term-renamed-direct-")
            ctx.expect("term-renamed-equals-directly-built-term", r2 is True)
            return {"cls": "OK"}
        if kind == "term-copy":
            b = a.copy()
            # the same term with its coefficients supplied in another order is an equal term
            a2 = P.PolyhedralTerm({v: a.variables[v] for v in reversed(list(a.variables))}, a.constant)
            r2 = check_pair(ctx, a, a2, "term-reordered-")
            ctx.expect("term-reordered-equal", r2 is True)
            r = check_pair(ctx, a, b, "term-copy-")
            ctx.expect("term-copy-equal", r is True)
            ctx.expect("term-copy-is-new-object", b is not a and b.variables is not a.variables)
            return {"cls": "OK"}
        # the second term lists its variables in the opposite order: equality and hash must not depend on it
        b = sym_term(ctx, list(reversed(vs)), "b")
        r = check_pair(ctx, a, b, "term-", term_equal_formula(a, b))
        if kind == "term-triple" and r:
            c = sym_term(ctx, vs, "c")
            r2 = check_pair(ctx, b, c, "term-bc-", term_equal_formula(b, c))
            if r2:
                r3 = check_pair(ctx, a, c, "term-ac-")
                ctx.expect("term-equality-transitive", r3 is True)
        return {"cls": "OK"}
    if kind.startswith("list"):
        ctx.tag("list")
        la = P.PolyhedralTermList([sym_term(ctx, None, f"a{i}", t) for i, t in enumerate(job["A"])])
        if kind == "list-order":
            lb = P.PolyhedralTermList(list(reversed(la.copy().terms)))
            same = z3.And(*[term_equal_formula(t, u) for t, u in zip(la.terms, lb.terms)])
            check_pair(ctx, la, lb, "list-order-", same)
            return {"cls": "OK"}
        if kind == "list-copy":
            lb = la.copy()
            r = check_pair(ctx, la, lb, "list-copy-")
            ctx.expect("list-copy-equal", r is True)
            ctx.expect("list-copy-shares-no-terms", lb.terms is not la.terms and all(x is not y for x, y in zip(la.terms, lb.terms)))
            return {"cls": "OK"}
        lb = P.PolyhedralTermList([sym_term(ctx, None, f"b{i}", t) for i, t in enumerate(job["B"])])
        if len(la.terms) != len(lb.terms):
            same = z3.BoolVal(False)
        else:
            same = z3.And(*[term_equal_formula(t, u) for t, u in zip(la.terms, lb.terms)])
        check_pair(ctx, la, lb, "list-", same)
        return {"cls": "OK"}
    if kind == "compound":
        ctx.tag("compound")
        from pacti.contracts.polyhedral_iocontract import NestedPolyhedra, PolyhedralIoContractCompound

        X, Y, Z, U = (B.Var(n) for n in "xyzu")
        mk = lambda ins, outs, pre: PolyhedralIoContractCompound(  # noqa: E731
            NestedPolyhedra([B.mk_tl(ctx, [{"x": 1}], pre + "a")], True), NestedPolyhedra([B.mk_tl(ctx, alt, f"{pre}g{i}_") for i, alt in enumerate(job["g"])], False), ins, outs
        )
        c1 = mk([X], [Y], "p")
        if job["edit"] == "none":
            c2 = mk([X], [Y], "p")
        elif job["edit"] == "outputs":
            c2 = mk([X], [Y, Z], "p")
        else:
            c2 = mk([X, U], [Y], "p")
        try:
            e = bool(c1 == c2)
        except Exception as ex:
            ctx.expect("compound-eq-does-not-raise", False, info=B.classify(ex))
            return {"cls": B.classify(ex)}
        ctx.tag("edit:" + job["edit"])
        if job["edit"] == "none":
            ctx.expect("compound-equal-to-identical", e is True)
        else:
            ctx.expect("compound-differing-in-one-field-unequal", e is False, info=job["edit"])
        return {"cls": "OK"}
    # contracts
    ctx.tag("contract")
    ctx.tag("edit:" + job["edit"].split("-")[0])
    from pacti.contracts import PolyhedralIoContract

    spec = job["c"]
    try:
        c1 = B.mk_contract(ctx, spec, "p", simplify=False)
    except ValueError as e:
        return {"cls": B.classify(e)}
    edit = job["edit"]
    ins, outs = list(spec["in"]), list(spec["out"])
    a_rows, g_rows = [dict(t) for t in spec["a"]], [dict(t) for t in spec["g"]]
    differ = None  # z3 formula: the two contracts differ field-wise
    E = O.E
    if edit == "copy":
        try:
            c2 = c1.copy()
        except ValueError as e:
            return {"cls": B.classify(e)}
        # a copy re-simplifies: only a contract built with the default simplification is promised equal
        try:
            c1s = PolyhedralIoContract(c1.a, c1.g, c1.inputvars, c1.outputvars)
            c2 = c1s.copy()
        except ValueError as e:
            return {"cls": B.classify(e)}
        r = check_pair(ctx, c1s, c2, "contract-copy-")
        ctx.expect("contract-copy-equal", r is True)
        ctx.expect("contract-copy-shares-nothing", c2.a is not c1s.a and c2.g is not c1s.g and c2.inputvars is not c1s.inputvars and all(x is not y for x, y in zip(c2.g.terms, c1s.g.terms)))
        return {"cls": "OK", "res": c2}
    if edit == "simplify-in-place":
        # hash, then IoContract.simplify() (documented in-place mutator), then compare with a copy
        k = PolyhedralIoContract(c1.a, P.PolyhedralTermList(c1.g.terms + [t.copy() for t in c1.a.terms]), c1.inputvars, c1.outputvars, simplify=False)
        try:
            hash(k)
            k.simplify()
            twin = k.copy()
        except ValueError as e:
            return {"cls": B.classify(e)}
        check_pair(ctx, k, twin, "contract-after-simplify-")
        return {"cls": "OK"}
    if edit == "none":
        c2 = B.mk_contract(ctx, spec, "p", simplify=False)
        differ = z3.BoolVal(False)
    elif edit == "inputs-order" and len(ins) > 1:
        c2 = PolyhedralIoContract(c1.a, c1.g, list(reversed(c1.inputvars)), c1.outputvars, simplify=False)
        differ = z3.BoolVal(True)
    elif edit == "outputs-order" and len(outs) > 1:
        c2 = PolyhedralIoContract(c1.a, c1.g, c1.inputvars, list(reversed(c1.outputvars)), simplify=False)
        differ = z3.BoolVal(True)
    elif edit == "inputs":
        c2 = PolyhedralIoContract(c1.a, c1.g, c1.inputvars + [B.Var("extra")], c1.outputvars, simplify=False)
        differ = z3.BoolVal(True)
    elif edit == "outputs":
        c2 = PolyhedralIoContract(c1.a, c1.g, c1.inputvars, c1.outputvars + [B.Var("extra")], simplify=False)
        differ = z3.BoolVal(True)
    elif edit == "role-move":
        # the same variables in the same overall order, one of them an input on one side and an output on the other
        m = B.Var("m")
        c1 = PolyhedralIoContract(c1.a, c1.g, c1.inputvars + [m], c1.outputvars, simplify=False)
        c2 = PolyhedralIoContract(c1.a, c1.g, c1.inputvars[:-1], [m] + c1.outputvars, simplify=False)
        if job["pick"] < 0.5:
            c1, c2 = c2, c1
        differ = z3.BoolVal(True)
    elif edit == "constant":
        k = int(job["pick"] * len(g_rows))
        g2 = c1.g.copy()
        newc = ctx.const("edited")
        g2.terms[k] = P.PolyhedralTerm(dict(g2.terms[k].variables), newc)
        c2 = PolyhedralIoContract(c1.a, g2, c1.inputvars, c1.outputvars, simplify=False)
        differ = E.toz(newc) != E.toz(c1.g.terms[k].constant)
    elif edit == "coefficient":
        k = int(job["pick"] * len(g_rows))
        g2 = c1.g.copy()
        vv = dict(g2.terms[k].variables)
        v0 = sorted(vv, key=lambda v: v.name)[0]
        vv[v0] = vv[v0] + 1
        g2.terms[k] = P.PolyhedralTerm(vv, g2.terms[k].constant)
        c2 = PolyhedralIoContract(c1.a, g2, c1.inputvars, c1.outputvars, simplify=False)
        differ = z3.BoolVal(True)
    elif edit == "term-order" and len(g_rows) > 1:
        g2 = P.PolyhedralTermList(list(reversed(c1.g.copy().terms)))
        c2 = PolyhedralIoContract(c1.a, g2, c1.inputvars, c1.outputvars, simplify=False)
        differ = z3.Not(z3.And(*[term_equal_formula(t, u) for t, u in zip(c1.g.terms, g2.terms)]))
    elif edit == "drop-term" and len(g_rows) > 1:
        g2 = P.PolyhedralTermList(c1.g.copy().terms[:-1])
        c2 = PolyhedralIoContract(c1.a, g2, c1.inputvars, c1.outputvars, simplify=False)
        differ = z3.BoolVal(True)
    else:
        c2 = B.mk_contract(ctx, spec, "p", simplify=False)
        differ = z3.BoolVal(False)
    check_pair(ctx, c1, c2, "contract-", z3.Not(differ))
    return {"cls": "OK"}


def culprit(job, consts, label, rec):
    return job["kind"] + ":" + str(job.get("edit", ""))
