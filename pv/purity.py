"""Purity helpers shared by the harnesses: deep snapshots of pacti objects, comparison, identity walks."""
from __future__ import annotations

import z3

from . import oracle as O

def snap(obj):
    """Structural description; numbers as z3 terms (symbolic) or Python values."""
    E = O.E
    if isinstance(obj, E.SymReal):
        return ("num", obj.z)
    if isinstance(obj, (int, float)) and not isinstance(obj, bool):
        return ("num", E.q(obj))
    if obj is None or isinstance(obj, (str, bool)):
        return ("lit", obj)
    if isinstance(obj, (list, tuple)):
        return ("seq", type(obj).__name__, [snap(x) for x in obj])
    if isinstance(obj, dict):
        return ("map", [(snap(k), snap(v)) for k, v in obj.items()])
    if hasattr(obj, "_name") and hasattr(obj, "name"):
        return ("var", obj.name)
    if hasattr(obj, "variables") and hasattr(obj, "constant"):
        return ("term", [(v.name, snap(c)) for v, c in obj.variables.items()], snap(obj.constant))
    if hasattr(obj, "terms"):
        return ("tl", [snap(t) for t in obj.terms])
    if hasattr(obj, "inputvars"):
        return ("contract", [v.name for v in obj.inputvars], [v.name for v in obj.outputvars], snap(obj.a), snap(obj.g))
    return ("other", repr(type(obj)))


def same(ctx, s1, s2):
    if s1[0] != s2[0]:
        return False
    if s1[0] == "num":
        return z3.eq(s1[1], s2[1]) or ctx.provable(s1[1] == s2[1])
    if s1[0] in ("lit", "var", "other"):
        return s1[1] == s2[1]
    if s1[0] == "seq":
        return s1[1] == s2[1] and len(s1[2]) == len(s2[2]) and all(same(ctx, a, b) for a, b in zip(s1[2], s2[2]))
    if s1[0] == "map":
        return len(s1[1]) == len(s2[1]) and all(same(ctx, a[0], b[0]) and same(ctx, a[1], b[1]) for a, b in zip(s1[1], s2[1]))
    if s1[0] == "term":
        return len(s1[1]) == len(s2[1]) and all(a[0] == b[0] and same(ctx, a[1], b[1]) for a, b in zip(s1[1], s2[1])) and same(ctx, s1[2], s2[2])
    if s1[0] == "tl":
        return len(s1[1]) == len(s2[1]) and all(same(ctx, a, b) for a, b in zip(s1[1], s2[1]))
    if s1[0] == "contract":
        return s1[1] == s2[1] and s1[2] == s2[2] and same(ctx, s1[3], s2[3]) and same(ctx, s1[4], s2[4])
    return False


def mutable_ids(obj, acc=None):
    """ids of mutable objects reachable from obj (lists, dicts, terms, term lists, contracts)."""
    acc = {} if acc is None else acc
    if isinstance(obj, (list, dict)):
        if id(obj) in acc:
            return acc
        acc[id(obj)] = type(obj).__name__
        for x in obj.values() if isinstance(obj, dict) else obj:
            mutable_ids(x, acc)
    elif isinstance(obj, tuple):
        for x in obj:
            mutable_ids(x, acc)
    elif hasattr(obj, "variables") and hasattr(obj, "constant"):
        if id(obj) not in acc:
            acc[id(obj)] = "term"
            mutable_ids(obj.variables, acc)
    elif hasattr(obj, "terms"):
        if id(obj) not in acc:
            acc[id(obj)] = "termlist"
            mutable_ids(obj.terms, acc)
    elif hasattr(obj, "inputvars"):
        if id(obj) not in acc:
            acc[id(obj)] = "contract"
            for x in (obj.inputvars, obj.outputvars, obj.a, obj.g):
                mutable_ids(x, acc)
    return acc




def guard(ctx, objs):
    """Snapshot of the operands before a call."""
    return {k: snap(v) for k, v in objs.items()}


def check_unchanged(ctx, before, objs, label="operands-unchanged", info=""):
    ok = True
    for k, v in objs.items():
        if not same(ctx, before[k], snap(v)):
            ok = False
            info = f"{info} {k}".strip()
    ctx.expect(label, ok, info=info)
    return ok
