"""Self-test: seeded mutants of /repo/src must be caught by the corresponding check.

    ./check --selftest                 all mutants, quick tier
    ./check --selftest <name> ...      selected mutants
    ./check --selftest --list

Each mutant is applied to a scratch copy of /repo/src (outside /repo and /verif, removed
afterwards); PACTI_SRC points the check at it; evidence and replays go to a scratch
directory.  Not part of the manifest.
"""
from __future__ import annotations

import os
import shutil
import subprocess
import sys
import tempfile
import time

VERIF = os.path.dirname(os.path.dirname(os.path.abspath(__file__)))
POLY = "pacti/terms/polyhedra/polyhedra.py"
IOC = "pacti/iocontract/iocontract.py"
DATA = "pacti/terms/polyhedra/syntax/data.py"
GRAM = "pacti/terms/polyhedra/syntax/grammar.py"
SER = "pacti/terms/polyhedra/serializer.py"
LISTS = "pacti/utils/lists.py"
CPD = "pacti/iocontract/compundiocontract.py"
PIC = "pacti/contracts/polyhedral_iocontract.py"
FIO = "pacti/utils/fileio.py"
PLOTS = "pacti/utils/plots.py"

# (name, file, old, new, [properties expected to report a VIOLATION], [properties that must stay quiet])
MUTANTS = [
    ("isolate-sign", POLY, "constant=-self.constant / self.get_coefficient(var_to_isolate),", "constant=self.constant / self.get_coefficient(var_to_isolate),", ["C04", "C01"], []),
    ("tlp-no-sign-check", POLY, "if (refine and np.any(multipliers < -tolerance)) or (not refine and np.any(multipliers > tolerance)):", "if False:", ["C04"], []),
    ("tactic4-recursion-sign", POLY, "sign = 1 if term.get_coefficient(var_to_elim) > 0 else -1", "sign = 1", ["C04"], []),
    ("tlp-assert", POLY, 'if len(indices) < num_vars_to_elim:\n            raise ValueError("Context has insufficient information")', "assert len(indices) >= num_vars_to_elim", ["C14"], []),
    ("compose-drop-self-a", IOC, "assumptions = new_a | self.a", "assumptions = new_a", ["C01", "C05"], []),
    ("compose-simplify-sides-against-each-other", IOC, "(g1, used) = g1_t.elim_vars_by_relaxing(g2_t, intvars, False, tactics_order)\n        tactics_used.append(used)\n        (g2, used) = g2_t.elim_vars_by_relaxing(g1_t, intvars, False, tactics_order)", "(g1, used) = g1_t.elim_vars_by_relaxing(g2_t, intvars, simplify, tactics_order)\n        tactics_used.append(used)\n        (g2, used) = g2_t.elim_vars_by_relaxing(g1_t, intvars, simplify, tactics_order)", ["C15"], ["C01"]),
    ("merge-drops-other-guarantees", IOC, "guarantees = self.g | other.g", "guarantees = self.g", ["C08", "C15"], []),
    ("merge-assumptions-intersection", IOC, "assumptions = self.a | other.a\n        guarantees", "assumptions = self.a & other.a\n        guarantees", ["C08"], []),
    ("refines-no-tolerance", POLY, 'if -res["fun"] <= b_temp + LP_ROUNDOFF_TOLERANCE:', 'if -res["fun"] <= b_temp:', ["C03"], []),
    ("refines-ignores-last-row", POLY, "for i in range(n_r):\n            constraint = a_r[[i], :]", "for i in range(n_r - 1):\n            constraint = a_r[[i], :]", ["C03"], []),
    ("quotient-always-extends", IOC, "if assumptions.refines(other.a):", "if True:", ["C02", "C05"], []),
    ("quotient-guarantees-skip-divisor-assumptions", IOC, "        guarantees = guarantees | other.a\n", "        guarantees = guarantees | type(guarantees)([])\n", ["C05", "C02"], []),
    ("compose-relax-with-wrong-operand", IOC, "(g2, used) = g2_t.elim_vars_by_relaxing(g1_t, intvars, False, tactics_order)", "(g2, used) = g1_t.elim_vars_by_relaxing(g2_t, intvars, False, tactics_order)", ["C15"], ["C05"]),
    ("compose-accepts-shared-outputs", IOC, "        return len(list_intersection(self.outputvars, other.outputvars)) == 0", "        return True", ["C06"], []),
    ("quotient-skips-additional-input-check", IOC, "if list_diff(additional_inputs, list_union(other.outputvars, self.inputvars)):", "if False:", ["C06"], []),
    ("compose-forgets-kept-outputs", IOC, "        outputvars = list_union(outputvars, vars_to_keep)\n", "", ["C06"], []),
    ("compose-keep-check-dropped", IOC, "        if conflict_vars:\n            raise IncompatibleArgsError(\"Asked to keep variables", "        if False:\n            raise IncompatibleArgsError(\"Asked to keep variables", ["C06"], []),
    ("quotient-output-rule", IOC, "list_diff(self.outputvars, other.outputvars), list_diff(other.inputvars, self.inputvars)\n        )\n        inputvars", "list_diff(self.outputvars, other.outputvars), list_diff(other.inputvars, self.outputvars)\n        )\n        inputvars", ["C06"], []),
    ("feedback-check-dropped", IOC, "if cycle_present and (other_drives_const_inputs or self_drives_const_inputs):", "if cycle_present and (other_drives_const_inputs and self_drives_const_inputs):", ["C06"], []),
    ("ctor-skips-guarantee-vars-check", IOC, "        if list_diff(guarantees.vars, list_union(input_vars, output_vars)):\n            raise IncompatibleArgsError(", "        if False:\n            raise IncompatibleArgsError(", ["C06"], []),
    ("rename-keeps-duplicate-input", IOC, "                else:\n                    inputvars.remove(source_var)", "                else:\n                    inputvars[inputvars.index(source_var)] = target_var", ["C06"], []),
    ("eq-outputvars-self", IOC, "and self.outputvars == other.outputvars", "and self.outputvars == self.outputvars", ["C19"], []),
    ("term-self-rename", POLY, "if source_var in self.vars and source_var != target_var:", "if source_var in self.vars:", ["C16"], []),
    ("rename-keeps-source-coefficient", POLY, "new_term.variables[target_var] += new_term.variables[source_var]", "new_term.variables[target_var] = new_term.variables[source_var]", ["C16"], []),
    ("optimize-wrong-polarity", POLY, "            return polarity * fun_val", "            return fun_val", ["C12"], []),
    ("optimize-unbounded-as-error", POLY, 'if res["status"] == 3:\n            return None\n        elif res["status"] == 0:\n            fun_val', 'if res["status"] == 0:\n            fun_val', ["C12"], []),
    ("evaluate-strict", POLY, "if new_term.constant < 0:", "if new_term.constant <= 0:", ["C11"], []),
    ("is-empty-unbounded-means-empty", POLY, 'elif res["status"] in {0, 3}:\n            return False', 'elif res["status"] in {0}:\n            return False\n        elif res["status"] == 3:\n            return True', [], []),
    ("nested-contains-all", CPD, "                if tl.contains_behavior(behavior):\n                    return True", "                if not tl.contains_behavior(behavior):\n                    return False", ["C17"], []),
    ("intersect-keeps-empty", CPD, "                if not new_tl.is_empty():\n                    new_nested_tl.append(new_tl)", "                new_nested_tl.append(new_tl)", ["C17"], []),
    ("print-3-digits", SER, '        return f"{n:.4g}"\n    return str(n)', '        return f"{n:.3g}"\n    return str(n)', ["C10"], []),
    ("print-negative-coefficient-sign", SER, 'res += " - " + _number_to_string(-coeff) + " " + var.name', 'res += " - " + _number_to_string(coeff) + " " + var.name', ["C10"], []),
    ("fold-equality-uses-other-constant", SER, 's = _lhs_str(tp) + " = " + _number_to_string(tp.constant)', 's = _lhs_str(tp) + " = " + _number_to_string(tn.constant)', ["C10"], []),
    ("fold-abs-without-constant-check", SER, "                elif _are_numbers_approximatively_equal(tp.constant, tn.constant):", "                elif True:", ["C10"], []),
    ("machine-dict-int-constant", PIC, '"constant": float(term.constant),\n                "coefficients": {str(k): float(v) for k, v in term.variables.items()},\n            }\n            for term in self.g.terms', '"constant": float(term.constant) + 0.5,\n                "coefficients": {str(k): float(v) for k, v in term.variables.items()},\n            }\n            for term in self.g.terms', ["C10"], []),
    ("file-swaps-representation", FIO, 'if machine_representation:\n                entry["type"] = "PolyhedralIoContract_machine"\n                entry["data"] = c.to_machine_dict()', 'if machine_representation:\n                entry["type"] = "PolyhedralIoContract_machine"\n                entry["data"] = c.copy().to_machine_dict()', [], ["C10"]),
    ("transform-mutates-self", POLY, "        term_list = list(self.terms)\n        new_terms = self.copy()", "        term_list = list(self.terms)\n        new_terms = self", ["C13"], []),
    ("union-shares-terms", IOC, "return type(self)(list_union(self.copy().terms, other.copy().terms))", "return type(self)(list_union(self.terms, other.terms))", ["C13"], []),
    ("term-rename-in-place", POLY, "        new_term = self.copy()\n        if source_var in self.vars and source_var != target_var:", "        new_term = self\n        if source_var in self.vars and source_var != target_var:", ["C13"], []),
    ("default-tactics-order-consumed", PIC, "        if tactics_order is None:\n            tactics_order = TACTICS_ORDER\n\n        if vars_to_keep is None:", "        if tactics_order is None:\n            tactics_order = TACTICS_ORDER\n            TACTICS_ORDER.reverse()\n\n        if vars_to_keep is None:", ["C13"], []),
    ("get-terms-with-vars-aliases", IOC, "                terms.append(t.copy())\n        return type(self)(terms)", "                terms.append(t)\n        return type(self)(terms)", ["C13"], []),
    ("check-clause-no-raise", SER, "            raise ContractFormatError(f'Keyword \"{kw}\" not found in {clause_id}')", "            ContractFormatError(f'Keyword \"{kw}\" not found in {clause_id}')", ["C14"], []),
    ("file-asserts", FIO, '            raise ContractFormatError(f"Each entry of the file {file_name} should be a dictionary")', "            assert False", ["C14"], []),
    ("division-by-zero-escapes", GRAM, "        elif operand == 0:\n            raise pp.ParseFatalException(string, location, \"Division by zero in a constant expression\")\n", "", ["C14", "C09"], []),
    ("optimize-no-presolve-retry", POLY, '        if res["status"] == 2:\n            # the solver\'s presolve reports', '        if False:\n            # the solver\'s presolve reports', ["C12"], []),
    ("optimize-empty-termlist", POLY, "            return None if obj.vars else 0\n", "            pass\n", ["C12"], []),
    ("compose-wrong-context", IOC, "other.a | other.g, assumptions_forbidden_vars, simplify=True, tactics_order=tactics_order", "other.a, assumptions_forbidden_vars, simplify=True, tactics_order=tactics_order", [], []),
    ("tactic2-polarity", POLY, "polarity = 1\n        if refine:\n            polarity = -1\n        objective = [polarity * term.get_coefficient(var) for var in variables]", "polarity = -1\n        if refine:\n            polarity = 1\n        objective = [polarity * term.get_coefficient(var) for var in variables]", ["C04"], []),
    ("reduce-drops-near-redundant", POLY, '(res["status"] == 0 and -res["fun"] <= b_temp[i])', '(res["status"] == 0 and -res["fun"] <= b_temp[i] + 0.5)', ["C07"], []),
    ("reduce-keeps-implied", POLY, '(res["status"] == 0 and -res["fun"] <= b_temp[i])', '(res["status"] == 0 and -res["fun"] <= b_temp[i] - 0.5)', ["C07"], []),
    ("reduce-strict-is-harmless", POLY, '(res["status"] == 0 and -res["fun"] <= b_temp[i])', '(res["status"] == 0 and -res["fun"] < b_temp[i])', [], ["C07"]),
    ("list-union-concat", LISTS, "return list1 + [el for el in list2 if (el not in list1)]", "return list1 + list2", ["C06"], []),
    ("combine-optional-floats", DATA, "    return f1 + f2\n", "    return f1\n", ["C09"], []),
    ("combine-none-none", DATA, "            return 2.0\n", "            return None\n", ["C09"], []),
    ("arith-chain-first-two", GRAM, "    for op, operand in zip(chain[1::2], chain[2::2]):\n        result = result + operand if op == \"+\" else result - operand", "    for op, operand in list(zip(chain[1::2], chain[2::2]))[:1]:\n        result = result + operand if op == \"+\" else result - operand", ["C09"], []),
    ("negate-keeps-constant", DATA, "        c = -self.constant\n        fs = {}", "        c = self.constant\n        fs = {}", ["C09"], []),
    ("geq-as-leq", SER, "        minus_a_plus_b: PolyhedralSyntaxAbsoluteTermList = a.negate().add(b)", "        minus_a_plus_b: PolyhedralSyntaxAbsoluteTermList = a.add(b.negate())", ["C09"], []),
    ("convex-check-skipped", SER, "        _check_absolute_terms(str_rep, a_minus_b.absolute_term_list)", "        pass", ["C09"], []),
    ("paren-factor-skips-constant", GRAM, "    pt.constant *= f\n    for k in pt.factors:", "    for k in pt.factors:", ["C09"], []),
    ("plots-lower-limit-sign", PLOTS, "constraints.append(PolyhedralTerm({x_var: -1}, -x_lims[0]))", "constraints.append(PolyhedralTerm({x_var: -1}, x_lims[0]))", ["C18"], []),
    ("plots-column-swap-dropped", PLOTS, "if variables[0] == y_var:", "if False:", ["C18"], []),
    ("plots-substitute-sign", PLOTS, "subst_with_term=PolyhedralTerm(variables={}, constant=-val)", "subst_with_term=PolyhedralTerm(variables={}, constant=val)", ["C18"], []),
    ("plots-zero-row-refused", PLOTS, "if term.constant < 0:", "if term.constant <= 0:", ["C18"], []),
    ("plots-unsorted", PLOTS, "points = sorted(zip(x, y), key=lambda p: atan2(p[1] - center[1], p[0] - center[0]))", "points = list(zip(x, y))", ["C18"], []),
    ("plots-sorted-clockwise", PLOTS, "points = sorted(zip(x, y), key=lambda p: atan2(p[1] - center[1], p[0] - center[0]))", "points = sorted(zip(x, y), key=lambda p: atan2(p[1] - center[1], p[0] - center[0]), reverse=True)", [], ["C18"]),
    ("plots-fallback-two-directions", PLOTS, "x = (p1[0], p2[0], p3[0], p4[0])\n        y = (p1[1], p2[1], p3[1], p4[1])", "x = (p1[0], p2[0])\n        y = (p1[1], p2[1])", ["C18"], []),
    ("plots-infeasible-status-ignored", PLOTS, 'if res["status"] == 2:\n        raise ValueError("Constraints are unfeasible")', "pass", ["C18"], []),
    ("plots-y-limits-swapped", PLOTS, "constraints.append(PolyhedralTerm({y_var: 1}, y_lims[1]))", "constraints.append(PolyhedralTerm({y_var: 1}, x_lims[1]))", ["C18"], []),
    ("reduce-polytope-context-assert", POLY, "elif np.any(np.asarray(b_help) < 0):\n            # the context only has constraints without variables (0 <= b): a negative b makes it unsatisfiable\n            raise ValueError(\"The constraints are unsatisfiable\")", "else:\n            assert len(b_help) == 0", ["C14", "C07"], []),
    ("is-empty-variable-free", POLY, "return bool(np.any(np.asarray(b) < 0))\n        assert n == len(b)\n        objective", "return False\n        assert n == len(b)\n        objective", ["C11"], []),
    ("simplify-variable-free-valueerror", POLY, "if m == 0 and n > 1:", "if False:", ["C07"], []),
]


def apply_mutant(src, m):
    name, rel, old, new = m[:4]
    p = os.path.join(src, rel)
    s = open(p).read()
    if old not in s:
        raise RuntimeError(f"mutant {name}: pattern not found in {rel}")
    open(p, "w").write(s.replace(old, new, 1))


def run_check(prop, src, out, tier="quick"):
    env = dict(os.environ, PACTI_SRC=src, PV_OUT=out)
    t = time.time()
    p = subprocess.run([os.path.join(VERIF, "check"), prop, tier], capture_output=True, text=True, env=env, cwd=VERIF)
    viol = [l for l in p.stdout.splitlines() if l.startswith("VIOLATION")]
    return p.returncode, len(viol), time.time() - t, p.stdout[-1500:]


def main(argv):
    if argv and argv[0] == "--list":
        for m in MUTANTS:
            print(m[0], m[1], "->", m[4])
        return 0
    sel = [m for m in MUTANTS if not argv or m[0] in argv]
    ok = True
    for m in sel:
        scratch = tempfile.mkdtemp(prefix="pv_selftest_")
        try:
            src = os.path.join(scratch, "src")
            shutil.copytree(os.path.join(os.environ.get("SELFTEST_BASE", "/repo"), "src"), src)
            apply_mutant(src, m)
            for prop in m[4]:
                if not os.path.exists(os.path.join(VERIF, "pv", "props", prop + ".py")):
                    print(f"[selftest] {m[0]} x {prop}: check not built")
                    continue
                rc, nv, wall, tail = run_check(prop, src, scratch)
                good = rc == 1 and nv > 0
                ok &= good
                print(f"[selftest] {m[0]} x {prop}: exit={rc} violations={nv} wall={wall:.0f}s -> {'CAUGHT' if good else 'MISSED'}", flush=True)
                if not good:
                    print(tail)
            for prop in m[5]:
                rc, nv, wall, tail = run_check(prop, src, scratch)
                good = rc == 0
                ok &= good
                print(f"[selftest] {m[0]} x {prop} (must stay quiet): exit={rc} -> {'OK' if good else 'FALSE ALARM'}", flush=True)
        finally:
            shutil.rmtree(scratch, ignore_errors=True)
    return 0 if ok else 1
