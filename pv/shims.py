"""Run-time bindings that let the real pacti code compute with proxies.

Nothing in /repo is edited: the harness re-binds a few *names* in the already imported
pacti modules (`float`, `linprog`, `sympy`, and `np` in the serializer only).  Every
binding is listed in the evidence as a stub.
"""
from __future__ import annotations

import builtins
import os
import sys
from fractions import Fraction

import z3

from . import engine as E

PACTI_SRC = os.environ.get("PACTI_SRC", "/repo/src")


def import_pacti():
    """Import pacti from the working tree (not from site-packages, see DESIGN F1)."""
    if PACTI_SRC not in sys.path[:1]:
        sys.path.insert(0, PACTI_SRC)
    import warnings

    warnings.filterwarnings("ignore")
    import pacti

    if not os.path.realpath(pacti.__file__).startswith(os.path.realpath(PACTI_SRC)):
        raise RuntimeError(f"pacti imported from {pacti.__file__}, expected {PACTI_SRC}")
    return pacti


# ---- numerals inside strings -------------------------------------------------------
NUMERALS = {}  # placeholder text -> SymReal, per path (cleared by harnesses)


class _FloatMeta(type):
    def __instancecheck__(cls, o):
        return builtins.isinstance(o, (builtins.float, E.SymReal))


class symfloat(metaclass=_FloatMeta):
    """Bound to the name `float` inside pacti modules."""

    def __new__(cls, x=0.0):
        if builtins.isinstance(x, E.SymReal):
            return x
        if builtins.isinstance(x, str) and x in NUMERALS:
            return NUMERALS[x]
        return builtins.float(x)


# ---- canonical tokens for formatted symbolic numbers ---------------------------------


def token_format(eng, v, spec):
    """Formatting model: equal values <=> equal text (float repr is injective).

    '0.0', '1.0', '-1.0' are produced for those values because pacti compares with
    these literals; every other value gets a token that is shared by all equal values
    on this path.  `.4g` has its own model (fourg_format).
    """
    if spec == ".4g":
        return fourg_format(eng, v)
    if spec not in ("", "r", "s"):
        raise E.SymLeak(f"format spec {spec!r} on a symbolic number")
    toks = eng.path_state.setdefault("tokens", [])
    literal = eng.path_state.get("literal_tokens", True)
    if literal:
        if eng.branch(v.z == 0):
            return "0.0"
        if eng.branch(v.z == 1):
            return "1.0"
        if eng.branch(v.z == -1):
            return "-1.0"
    for u, t in toks:
        if eng.branch(v.z == u):
            return t
    # the sign is only needed where pacti inspects the text (syntax/data.py)
    neg = eng.branch(v.z < 0) if literal else False
    t = ("-" if neg else "") + f"<n{len(toks)}>"
    toks.append((v.z, t))
    return t


FOURG = {}  # placeholder -> (original z term, rounded z term), per path


def fourg_format(eng, v):
    """Model of format(v, '.4g') for 1e-4 <= |v| < 1e6 (fixed notation range).

    Emits ['-'] + a digit placeholder that the float shim maps back to a fresh real r
    constrained to be |v| rounded to 4 significant digits (ties: either neighbour).
    """
    if eng.branch(v.z == 0):
        return "0"
    neg = eng.branch(v.z < 0)
    mag = -v.z if neg else v.z
    lo, hi = z3.RealVal("1/10000"), z3.RealVal(10**6)
    if not eng.branch(z3.And(mag >= lo, mag < hi)):
        raise E.PathAbort("outside .4g fixed-notation range (outside the claim)")
    i = len(FOURG)
    tok = f"77{i:03d}"
    r = z3.Real(f"r4!{i}")
    mI = z3.Int(f"m4!{i}")
    cases = []
    for e in range(-4, 6):
        unit = Fraction(10) ** (e - 3)
        cases.append(
            z3.And(
                mag >= E.q(Fraction(10) ** e),
                mag < E.q(Fraction(10) ** (e + 1)),
                z3.ToReal(mI) - z3.RealVal("1/2") <= mag / E.q(unit),
                mag / E.q(unit) <= z3.ToReal(mI) + z3.RealVal("1/2"),
                mI >= 1000,
                mI <= 10000,
                r == z3.ToReal(mI) * E.q(unit),
            )
        )
    eng.assume(z3.Or(*cases))
    FOURG[tok] = (v.z, -r if neg else r)
    NUMERALS[tok] = E.SymReal(r)
    return ("-" if neg else "") + tok


class NpShim:
    """`np` inside pacti.terms.polyhedra.serializer: isclose on symbolic scalars."""

    def __init__(self, real_np):
        self._np = real_np

    def __getattr__(self, n):
        return getattr(self._np, n)

    def isclose(self, a, b, rtol=1e-5, atol=1e-8, equal_nan=False):
        if not (isinstance(a, E.SymReal) or isinstance(b, E.SymReal)):
            return self._np.isclose(a, b, rtol=rtol, atol=atol, equal_nan=equal_nan)
        return abs(a - b) <= atol + rtol * abs(b)

    def equal(self, a, b):
        if isinstance(a, E.SymReal) or isinstance(b, E.SymReal):
            return a == b
        return self._np.equal(a, b)

    def abs(self, a):  # noqa: A003
        if isinstance(a, E.SymReal):
            return abs(a)
        return self._np.abs(a)


_INSTALLED = {}


def install(stub_str=True, validate_lp=False):
    """Install the shims (idempotent).  Returns the polyhedra module."""
    import_pacti()
    import pacti.terms.polyhedra.polyhedra as P
    import pacti.terms.polyhedra.serializer as S
    import pacti.terms.polyhedra.syntax.data as D
    import pacti.terms.polyhedra.syntax.grammar as G
    import pacti.contracts.polyhedral_iocontract as PC

    from . import lp, sympy_shim

    if not _INSTALLED:
        _INSTALLED["linprog"] = P.linprog
        _INSTALLED["term_str"] = P.PolyhedralTerm.__str__
        _INSTALLED["tl_str"] = P.PolyhedralTermList.__str__
        _INSTALLED["np"] = S.np
        for M in (P, S, D, G, PC):
            M.float = symfloat
        P.sympy = sympy_shim.SympyShim()
        sympy_shim.install_hook()
        S.np = NpShim(S.np)
        P.np = NpShim(P.np)  # scalar np.isclose / np.equal on proxies (arrays go to the real numpy)
    P.linprog = lp.make_linprog(_INSTALLED["linprog"], validate=validate_lp)
    if stub_str == "list-only":
        # hashes go through PolyhedralTerm.__str__ (kept real); error messages format whole lists
        P.PolyhedralTerm.__str__ = _INSTALLED["term_str"]
        P.PolyhedralTermList.__str__ = lambda self: "<termlist>"
    elif stub_str:
        P.PolyhedralTerm.__str__ = lambda self: "<term>"
        P.PolyhedralTermList.__str__ = lambda self: "<termlist>"
    else:
        P.PolyhedralTerm.__str__ = _INSTALLED["term_str"]
        P.PolyhedralTermList.__str__ = _INSTALLED["tl_str"]
    return P


STUBS_DOC = [
    "float (name rebound in pacti modules): accepts proxies, maps numeral placeholders to symbols",
    "scipy.optimize.linprog -> exact parametric LP (Fourier-Motzkin projection; any optimal point; variable bounds as extra rows; a problem without variables is refused as scipy does; fully concrete problems go to the real HiGHS)",
    "sympy.solve -> exact rational row reduction with symbolic right-hand sides",
    "np.isclose / np.equal / abs on symbolic scalars (serializer and polyhedra modules): |a-b| <= atol + rtol*|b| over the reals",
    "PolyhedralTerm.__str__ / PolyhedralTermList.__str__ -> constant tokens where printing is not the subject; formatting of symbolic numbers -> canonical tokens (C10: a .4g model with an integer mantissa)",
    "json in pacti.utils.fileio (C10 file modes, symbolic runs): token round trip of the dumped object",
]
