"""sympy stand-in for PolyhedralTerm.to_symbolic / solve_for_variables / to_term.

`sympy.symbols` and `sympy.core` are the real ones.  A symbolic constant added to a
real sympy expression becomes a `SymLin` (real, concrete linear part + symbolic
constant).  `solve` on a system containing a SymLin is an exact rational row reduction
of the concrete coefficient matrix in the given symbol order (pivot: leftmost, as
sympy's solve_linear_system), right-hand sides symbolic.
"""
from __future__ import annotations

from fractions import Fraction

import sympy as _sympy
import z3

from . import engine as E


class SymLin:
    def __init__(self, lin, const):
        self.lin = lin  # concrete sympy expression (may contain a numeric part)
        self.const = const  # SymReal

    def __add__(self, o):
        if isinstance(o, SymLin):
            return SymLin(self.lin + o.lin, self.const + o.const)
        if isinstance(o, E.SymReal):
            return SymLin(self.lin, self.const + o)
        return SymLin(self.lin + o, self.const)

    __radd__ = __add__

    def __sub__(self, o):
        if isinstance(o, SymLin):
            return SymLin(self.lin - o.lin, self.const - o.const)
        if isinstance(o, E.SymReal):
            return SymLin(self.lin, self.const - o)
        return SymLin(self.lin - o, self.const)

    def __neg__(self):
        return SymLin(-self.lin, -self.const)

    def __mul__(self, o):
        if isinstance(o, (int, float, Fraction, _sympy.Number)):
            return SymLin(self.lin * o, self.const * float(o))
        return NotImplemented

    __rmul__ = __mul__

    def as_coefficients_dict(self):
        d = dict(_sympy.expand(self.lin).as_coefficients_dict()) if self.lin != 0 else {}
        c = d.pop(_sympy.S.One, 0)
        d[_sympy.S.One] = self.const + float(c)
        return d


def _hook(symreal, other, name):
    """Called by SymReal._bin for non-numeric right operands."""
    if isinstance(other, _sympy.Number):
        return None  # toz() handles it through float()
    if isinstance(other, (_sympy.Basic, SymLin)):
        lin = other if isinstance(other, SymLin) else SymLin(other, E.SymReal(E.q(0)))
        if name == "add":
            return lin + symreal
        if name == "sub":  # symreal - other
            return (-lin) + symreal
        if name == "rsub":  # other - symreal
            return lin - symreal
        raise E.SymLeak("unsupported operation between a symbolic constant and a sympy expression")
    return None


class SympyShim:
    """Module-like object bound to the name `sympy` inside pacti.terms.polyhedra.polyhedra."""

    def __init__(self):
        self.core = _sympy.core
        self.S = _sympy.S
        self.calls = 0

    def __getattr__(self, name):
        return getattr(_sympy, name)

    def symbols(self, *a, **k):
        return _sympy.symbols(*a, **k)

    def solve(self, exprs, *syms, **kw):
        if not any(isinstance(e, SymLin) for e in exprs):
            return _sympy.solve(exprs, *syms, **kw)
        self.calls += 1
        syms = list(syms)
        rows = []
        params = []
        for e in exprs:
            lin = e.lin if isinstance(e, SymLin) else e
            cst = e.const if isinstance(e, SymLin) else 0.0
            d = dict(_sympy.expand(lin).as_coefficients_dict()) if lin != 0 else {}
            c0 = d.pop(_sympy.S.One, 0)
            for k in d:
                if not isinstance(k, _sympy.Symbol):
                    raise E.SymLeak("non-linear sympy expression in solve")
                if k not in syms and k not in params:
                    params.append(k)
            rows.append((d, cst + float(c0)))
        ns, npar = len(syms), len(params)
        M = []
        for d, cst in rows:
            M.append(
                [Fraction(float(d.get(s, 0))) for s in syms]
                + [Fraction(float(d.get(p, 0))) for p in params]
                + [cst]
            )

        def scale(v, f):
            # v * f with f a Fraction
            if isinstance(v, E.SymReal):
                return E.SymReal(z3.simplify(v.z * E.q(f)))
            return v * f

        def sub(a, b):
            if isinstance(a, E.SymReal) or isinstance(b, E.SymReal):
                az = a.z if isinstance(a, E.SymReal) else E.q(a)
                bz = b.z if isinstance(b, E.SymReal) else E.q(b)
                return E.SymReal(z3.simplify(az - bz))
            return a - b

        # the constant column may hold floats: make them Fractions
        for r in M:
            if not isinstance(r[-1], E.SymReal):
                r[-1] = Fraction(float(r[-1]))
        piv = []
        r = 0
        for col in range(ns):
            pr = None
            for i in range(r, len(M)):
                if M[i][col] != 0:
                    pr = i
                    break
            if pr is None:
                continue
            M[r], M[pr] = M[pr], M[r]
            pv = M[r][col]
            M[r] = [scale(v, 1 / pv) for v in M[r]]
            for i in range(len(M)):
                if i != r and M[i][col] != 0:
                    fct = M[i][col]
                    M[i] = [sub(a, scale(b_, fct)) for a, b_ in zip(M[i], M[r])]
            piv.append(col)
            r += 1
        # consistency of zero rows
        for i in range(r, len(M)):
            if any(v != 0 for v in M[i][ns : ns + npar]):
                return []
            cst = M[i][-1]
            if isinstance(cst, E.SymReal):
                if not bool(cst == 0):
                    return []
            elif cst != 0:
                return []
        sol = {}
        for ri, col in enumerate(piv):
            row = M[ri]
            lin = _sympy.Integer(0)
            for j in range(ns):
                if j != col and row[j] != 0:
                    lin = lin - float(row[j]) * syms[j]
            for k in range(npar):
                if row[ns + k] != 0:
                    lin = lin - float(row[ns + k]) * params[k]
            cst = row[-1]
            # expression "lin_coeffs.x - constant == 0" -> x_col = -(others) + constant ... note sign:
            # row encodes  x_col + sum row[j] x_j + (-const_row) = 0  where the last column holds
            # the *expression constant* (to_symbolic builds  sum a_i x_i - c), so x_col = -sum - last
            cst = -cst if isinstance(cst, E.SymReal) else E.SymReal(E.q(-cst))
            sol[syms[col]] = SymLin(_sympy.sympify(lin), cst)
        return sol


def install_hook():
    E._SYMPY_HOOK = _hook
