"""Interface topologies of one or two contracts (shared by C05, C06, C13, C14)."""
from __future__ import annotations

import itertools
import random

ROLES = ["-", "i", "o"]  # absent, input, output
PAIRS = [(a, b) for a in ROLES for b in ROLES if (a, b) != ("-", "-")]


def topologies(n):
    """All multisets of n role pairs (variables are interchangeable)."""
    return list(itertools.combinations_with_replacement(PAIRS, n))


def names(n):
    return [f"v{i}" for i in range(n)]


def interface(topo, k):
    ins = [f"v{i}" for i, p in enumerate(topo) if p[k] == "i"]
    outs = [f"v{i}" for i, p in enumerate(topo) if p[k] == "o"]
    return ins, outs


def mention_patterns(ins, outs, style, rng):
    """Term variable sets for (assumptions, guarantees) of a contract with this interface."""
    if style == "none":
        return [], []
    if style == "full":
        a = [list(ins)] if ins else []
        g = ([list(ins) + list(outs)] if ins or outs else []) + ([list(outs)] if outs and ins else [])
        return a, g
    if style == "per-var":
        a = [[v] for v in ins]
        g = [[v] + ins[:1] for v in outs] or ([[ins[0]]] if ins else [])
        return a, g
    # seeded subset
    a = [[v for v in ins if rng.random() < 0.6]] if ins else []
    a = [t for t in a if t]
    g = []
    for _ in range(rng.choice([1, 2])):
        t = [v for v in ins + outs if rng.random() < 0.6]
        if t:
            g.append(t)
    return a, g


# ---- reference interface algebra, written from the property text ------------------------------


def ref_compose(i1, o1, i2, o2, keep):
    """(inputs, outputs) or None if the request is meaningless (without looking at constraints)."""
    if set(o1) & set(o2):
        return None
    if [v for v in keep if v not in o1 + o2]:
        return None
    ins = [v for v in i1 if v not in o2] + [v for v in i2 if v not in o1 and v not in i1]
    internal = [v for v in o1 if v in i2] + [v for v in o2 if v in i1]
    outs = [v for v in o1 + o2 if v not in internal or v in keep]
    return ins, outs


def ref_quotient(ci, co, di, do, add):
    """Dividend (ci, co), divisor (di, do)."""
    if [v for v in co if v not in do and v in di]:
        return None
    if [v for v in add if v not in do and v not in ci]:
        return None
    outs = [v for v in co if v not in do] + [v for v in di if v not in ci]
    ins = [v for v in ci if v not in di] + [v for v in do if v not in co]
    ins = ins + [v for v in add if v not in ins]
    return ins, outs


def ref_merge(i1, o1, i2, o2):
    ins = i1 + [v for v in i2 if v not in i1]
    outs = o1 + [v for v in o2 if v not in o1]
    return ins, outs
