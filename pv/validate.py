"""Translator validation against the repository's own test inputs.

    ./check --validate-translation

The inputs of the stored test files (tests/test_data/polyhedral_contracts/*.json) and the
strings of the grammar tests are pushed through the *shimmed* code (proxies, LP stub,
sympy stub, token formatting) with their constants wrapped as constant `SymReal`s —
branches then fold, one path each — and the outcome is compared with the unshimmed run
of the same operation: same outcome class and semantically equivalent result (two-way,
tolerant).  A disagreement that is not on the list of expected divergences (thin,
non-representable data: the dCas9 files encode an equality as two inequalities whose
decimal constants disagree in the 13th digit) exits 2.
"""
from __future__ import annotations

import glob
import json
import os
import subprocess
import sys

from . import engine as E
from . import shims
from .driver import VERIF, canon, results_equivalent

REPO = os.path.dirname(os.environ.get("PACTI_SRC", "/repo/src"))
EXPECTED_DIVERGENT = ("dCas9",)  # thin data: exactly infeasible by ~1e-16, feasible for HiGHS


def load_cases():
    cases = []
    base = os.path.join(REPO, "tests", "test_data", "polyhedral_contracts")
    for f in sorted(glob.glob(os.path.join(base, "*.json"))):
        name = os.path.basename(f)
        op = None
        for key, o in (("composition", "compose"), ("quotient", "quotient"), ("merging", "merge")):
            if key in name:
                op = o
        if op is None:
            continue
        cases.append({"file": f, "name": name, "op": op})
    return cases


def run_op(op, c0, c1):
    from pacti.utils.errors import IncompatibleArgsError

    try:
        if op == "compose":
            r = c0.compose(c1)
        elif op == "quotient":
            r = c0.quotient(c1, simplify=True)
        else:
            r = c0.merge(c1)
        return "OK", r
    except IncompatibleArgsError:
        return "IAE", None
    except ValueError:
        return "VE", None


def real_main():
    """Unshimmed run (fresh interpreter): prints JSON {name: {cls, res, dicts}}."""
    shims.import_pacti()
    from pacti.utils import read_contracts_from_file

    out = {}
    for case in load_cases():
        cs, _ = read_contracts_from_file(case["file"])
        cls, r = run_op(case["op"], cs[0], cs[1])
        out[case["name"]] = {"cls": cls, "res": canon(r) if r is not None else None, "dicts": [cs[0].to_machine_dict(), cs[1].to_machine_dict()]}
    json.dump(out, sys.stdout)


def main():
    env = dict(os.environ, PYTHONPATH=VERIF)
    p = subprocess.run([sys.executable, "-c", "from pv.validate import real_main; real_main()"], capture_output=True, text=True, env=env, cwd=VERIF)
    if p.returncode != 0:
        print(p.stderr[-2000:])
        return 2
    real = json.loads(p.stdout)
    P = shims.install(stub_str=True)
    from pacti.contracts import PolyhedralIoContract
    from pacti.iocontract import Var

    def wrap(x):
        return E.SymReal(E.q(x))

    def build(d):
        mk = lambda rows: P.PolyhedralTermList([P.PolyhedralTerm({Var(k): v for k, v in r["coefficients"].items()}, wrap(r["constant"])) for r in rows])  # noqa: E731
        # the dictionaries come from contracts the file reader already simplified
        return PolyhedralIoContract(mk(d["assumptions"]), mk(d["guarantees"]), [Var(v) for v in d["input_vars"]], [Var(v) for v in d["output_vars"]], simplify=False)

    agree = same_text = 0
    bad = []
    expected_div = []
    for case in load_cases():
        ref = real[case["name"]]

        def h(eng):
            c0, c1 = build(ref["dicts"][0]), build(ref["dicts"][1])
            cls, r = run_op(case["op"], c0, c1)
            eng.s.push()
            eng.check()
            m = eng.s.model()
            eng.s.pop()
            return cls, (canon(r, m) if r is not None else None)

        eng = E.Engine(mode="sym", max_paths=50)
        eng.format_hook = shims.token_format
        res = eng.explore(h)
        outcomes = [r for _, r in res if isinstance(r, tuple)]
        # several paths are possible even with constant inputs: the LP stub leaves the optimal *point* open
        ok = bool(outcomes) and all(o[0] == ref["cls"] for o in outcomes) and any(results_equivalent(o[1], ref["res"]) is not False for o in outcomes)
        if ok:
            agree += 1
            same_text += outcomes[0][1] == ref["res"]
        elif any(k.lower() in case["name"].lower() for k in EXPECTED_DIVERGENT):
            expected_div.append((case["name"], [o[0] for o in outcomes], ref["cls"]))
        else:
            bad.append((case["name"], [o[0] if isinstance(o, tuple) else o for _, o in res], ref["cls"]))
    print(f"[validate-translation] stored operations={len(load_cases())} agree={agree} (identical results: {same_text}) expected-divergent(thin data)={len(expected_div)} unexpected={len(bad)}")
    for e in expected_div:
        print("  expected divergence:", e)
    for b in bad:
        print("  UNEXPECTED:", b)
    return 0 if not bad else 2
