#!/bin/sh
# Builds /verif/.venv: an overlay on /venv (numpy, scipy, sympy, pyparsing as the
# repository's tests use them) plus z3-solver and cvc5 from the offline wheelhouse.
set -e
cd "$(dirname "$0")"
V=.venv
if [ -x "$V/bin/python" ] && "$V/bin/python" -c "import z3, numpy, scipy, sympy, pyparsing" 2>/dev/null; then
  exit 0
fi
rm -rf "$V"
/venv/bin/python -m venv "$V"
SP=$("$V/bin/python" -c "import sysconfig; print(sysconfig.get_paths()['purelib'])")
echo "import site; site.addsitedir('/venv/lib/python3.12/site-packages')" > "$SP/zz_venv_overlay.pth"
PIP_NO_INDEX=1 "$V/bin/python" -m pip install -q --no-index --find-links /opt/veriftools/wheels z3-solver cvc5 jsonschema >/dev/null 2>&1 || \
PIP_NO_INDEX=1 "$V/bin/python" -m pip install -q --no-index --find-links /opt/veriftools/wheels z3-solver
"$V/bin/python" -c "import z3, numpy, scipy, sympy, pyparsing; print('verif venv ok: z3', z3.get_version_string())"
