#!/usr/bin/env python3
"""Rewrites the cost paragraph of DESIGN.md section 7 from the committed evidence (quick tier) and thorough_runs.json."""
import glob, json, os
HERE = os.path.dirname(os.path.abspath(__file__))
rows = []
for f in sorted(glob.glob(os.path.join(HERE, "evidence", "C*.json"))):
    e = json.load(open(f)); c = e["coverage"]
    rows.append(f"| {e['property_id']} | {e['wall_s']:.0f} s | {c['states']} | {c['obligations']} | {c['traces_validated_against_impl']} | {c['queries']} | {c['solver_time_s']:.0f} s |")
txt = ["Quick tier, from the committed evidence (seed 0, this sandbox, 16 processes):", "", "| check | wall | paths | obligations | replays | solver queries | solver time |", "|---|---|---|---|---|---|---|"] + rows
tp = os.path.join(HERE, "thorough_runs.json")
if os.path.exists(tp):
    th = json.load(open(tp))
    txt += ["", "Thorough tier, last end-to-end runs (`tools_thorough.sh`; machine shared with other runs, so wall times are upper bounds):", "", "| check | wall | paths | obligations | replays | result |", "|---|---|---|---|---|---|"]
    for k in sorted(th):
        r = th[k]
        txt.append(f"| {k} | {r['wall']} s | {r['paths']} | {r['obligations']} | {r['replays']} | {r['result']} |")
d = os.path.join(HERE, "DESIGN.md"); t = open(d).read()
b, e = "<!-- cost-begin -->", "<!-- cost-end -->"
i, j = t.index(b) + len(b), t.index(e)
open(d, "w").write(t[:i] + "\n" + "\n".join(txt) + "\n" + t[j:])
print("cost table updated:", len(rows), "quick rows")
