#!/usr/bin/env python3
"""Regenerates MANIFEST.json from the table below (keeps it schema-valid at all times)."""
import json, os, sys
HERE = os.path.dirname(os.path.abspath(__file__))
sys.path.insert(0, HERE)
from pv.manifest_table import CHECKS, NOT_APPLICABLE, HOOKS

props = [json.loads(l) for l in open(os.path.join(HERE, "properties.jsonl"))]
ids = [p["id"] for p in props]
checks = []
for pid in ids:
    if pid in CHECKS:
        c = CHECKS[pid]
        checks.append({
            "property_id": pid,
            "quick_cmd": f"./check {pid} quick",
            "thorough_cmd": f"./check {pid} thorough",
            "evidence_file": f"/verif/evidence/{pid}.json",
            "replay_cmd_template": "./check --replay {path}",
            "engine": "symx",
            "level_claimed": {"category": "model_checking", "text": c["text"], "design_ref": c["design_ref"]},
            "level_note": c["note"],
            "technique": c["technique"],
        })
na = [{"property_id": pid, "reason": NOT_APPLICABLE.get(pid, "check not built yet (work in progress)")} for pid in ids if pid not in CHECKS]
m = {
    "version": 1,
    "setup_cmd": "./setup.sh",
    "hooks": HOOKS,
    "engines": [{"name": "symx", "path": "/verif/pv", "serves_properties": [c["property_id"] for c in checks],
                 "kind_free_text": "proxy-based symbolic execution of the real pacti Python with z3 (QF_LRA/NRA/LIRA); exact parametric-LP and linear-solve stubs; counterexamples replayed on the unshimmed code"}],
    "checks": checks,
    "not_applicable": na,
    "notes": "See DESIGN.md. Every check: ./check <id> <tier>; exit 0 held / 1 VIOLATION / 2 inconclusive (machinery fault, never a finding).",
}
json.dump(m, open(os.path.join(HERE, "MANIFEST.json"), "w"), indent=1)
import jsonschema
jsonschema.validate(m, json.load(open("/root/.vp/MANIFEST.schema.json")))
print("MANIFEST ok:", len(checks), "checks,", len(na), "not applicable")
