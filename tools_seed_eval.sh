#!/bin/sh
# Evaluates one independently written breaking change:  ./tools_seed_eval.sh <worktree> <k> <seed-id> <property> <checks...>
# Confirms: patch applies, existing tests pass with it, demo fails with it and passes without it; then runs the
# given checks (quick tier) against the patched tree via PACTI_SRC and records everything in seeded/<seed-id>/meta.json.
WT=$1; K=$2; ID=$3; PROP=$4; shift 4
cd "$(dirname "$0")" || exit 2
D=seeded/$ID; mkdir -p "$D"
cp "$WT/_seed/$K/patch.diff" "$WT/_seed/$K/demo.py" "$WT/_seed/$K/notes.md" "$D/" 2>/dev/null
git -C "$WT" checkout -q -- src
PYTHONPATH=$WT/src /venv/bin/python "$WT/_seed/$K/demo.py" >/dev/null 2>&1; DEMO_CLEAN=$?
git -C "$WT" apply "_seed/$K/patch.diff" || { echo "patch does not apply"; exit 2; }
TESTS=$(cd "$WT" && PYTHONPATH=$WT/src /venv/bin/python -m pytest -q -p no:cacheprovider 2>&1 | tail -1)
PYTHONPATH=$WT/src /venv/bin/python "$WT/_seed/$K/demo.py" > "$D/demo_with_change.out" 2>&1; DEMO_PATCHED=$?
OUT=$(mktemp -d /tmp/pv_seed_XXXX)
RES=""
for c in "$@"; do
  PACTI_SRC=$WT/src PV_OUT=$OUT ./check $c quick > "$OUT/$c.log" 2>&1; rc=$?
  nv=$(grep -c '^VIOLATION' "$OUT/$c.log")
  lab=$(ls "$OUT"/replays/$c-*.json 2>/dev/null | head -1 | xargs -r .venv/bin/python -c "import json,sys; d=json.load(open(sys.argv[1])); print(d['signature'].get('label'),'|',d['signature'].get('culprit'))" 2>/dev/null)
  echo "  check $c: exit=$rc violations=$nv  first: $lab"
  RES="$RES{\"check\":\"$c\",\"exit\":$rc,\"violations\":$nv,\"first_signature\":\"$(echo $lab | tr '"' "'")\"},"
  tail -2 "$OUT/$c.log" | head -1 > /dev/null
done
git -C "$WT" checkout -q -- src
rm -rf "$OUT"
cat > "$D/meta.json" <<JSON
{"seed": "$ID", "breaks_property": "$PROP", "origin": "written by an independent sub-agent given only the property text and a scratch worktree",
 "confirmed": {"existing_tests_with_change": "$TESTS", "demo_exit_with_change": $DEMO_PATCHED, "demo_exit_without_change": $DEMO_CLEAN},
 "checks_run_quick_tier": [${RES%,}],
 "needs_to_manifest": "see notes.md"}
JSON
echo "$ID: tests='$TESTS' demo clean=$DEMO_CLEAN patched=$DEMO_PATCHED"
