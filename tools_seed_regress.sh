#!/bin/sh
# Regression over the stored seeded changes: each patch is applied to a scratch worktree of /repo (removed afterwards)
# and the quick check of the property it breaks must report a VIOLATION.   usage: ./tools_seed_regress.sh [seed-ids...]
cd "$(dirname "$0")" || exit 2
IDS=${*:-$(ls seeded)}
bad=0
for id in $IDS; do
  [ -f seeded/$id/patch.diff ] || continue
  prop=$(jq -r .breaks_property seeded/$id/meta.json)
  WT=$(mktemp -d /tmp/pv_seedwt_XXXX); rmdir "$WT"
  git -C /repo worktree add -q --detach "$WT" HEAD >/dev/null 2>&1 || { echo "$id: cannot create worktree"; bad=1; continue; }
  if git -C "$WT" apply "$(pwd)/seeded/$id/patch.diff" 2>/dev/null; then
    OUT=$(mktemp -d /tmp/pv_seedout_XXXX)
    PACTI_SRC=$WT/src PV_OUT=$OUT ./check $prop quick > "$OUT/log" 2>&1; rc=$?
    nv=$(grep -c '^VIOLATION' "$OUT/log")
    if [ $rc -eq 1 ] && [ $nv -gt 0 ]; then echo "$id: $prop CAUGHT ($nv)"; else echo "$id: $prop NOT CAUGHT (exit $rc)"; bad=1; fi
    rm -rf "$OUT"
  else
    echo "$id: patch no longer applies to /repo HEAD"; bad=1
  fi
  git -C /repo worktree remove --force "$WT" >/dev/null 2>&1
done
exit $bad
