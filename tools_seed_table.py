#!/usr/bin/env python3
"""Prints the markdown table of independently seeded changes and the checks that catch them."""
import glob, json, os, re
HERE = os.path.dirname(os.path.abspath(__file__))
rows = []
for f in sorted(glob.glob(os.path.join(HERE, "seeded", "*", "meta.json"))):
    m = json.load(open(f))
    notes = open(os.path.join(os.path.dirname(f), "notes.md")).read().strip().splitlines()
    title = re.sub(r"^#+\s*", "", notes[0])[:150] if notes else ""
    caught = [f"{c['check']} ({c['violations']})" for c in m["checks_run_quick_tier"] if c["exit"] == 1]
    quiet = [c["check"] for c in m["checks_run_quick_tier"] if c["exit"] == 0]
    other = [f"{c['check']} exit {c['exit']}" for c in m["checks_run_quick_tier"] if c["exit"] not in (0, 1)]
    rows.append(f"| {m['seed']} | {m['breaks_property']} | {title} | {', '.join(caught) or '—'} | {', '.join(quiet + other) or '—'} |")
print("| seed | property | change (first line of the author's notes) | caught by (violations reported, quick tier) | ran and stayed quiet |")
print("|---|---|---|---|---|")
print("\n".join(rows))
