#!/usr/bin/env python3
"""Prints the markdown table of independently seeded changes and the checks that catch them."""
import glob, json, os, re
HERE = os.path.dirname(os.path.abspath(__file__))
rows = []
for f in sorted(glob.glob(os.path.join(HERE, "seeded", "*", "meta.json"))):
    m = json.load(open(f))
    notes = open(os.path.join(os.path.dirname(f), "notes.md")).read().strip().splitlines()
    title = re.sub(r"^#+\s*", "", notes[0])[:150] if notes else ""
    caught = [f"{c['check']} ({c['violations']})" for c in m["checks_run_quick_tier"] if c["exit"] == 1]
    quiet = [c["check"] for c in m["checks_run_quick_tier"] if c["exit"] == 0]
    other = [f"{c['check']} exit {c['exit']}" for c in m["checks_run_quick_tier"] if c["exit"] not in (0, 1)]
    rows.append(f"| {m['seed']} | {m['breaks_property']} | {title} | {', '.join(caught) or '—'} | {', '.join(quiet + other) or '—'} |")
import sys
out = []
_print = print
def print(x):  # noqa: A001
    out.append(x)
print("| seed | property | change (first line of the author's notes) | caught by (violations reported, quick tier) | ran and stayed quiet |")
print("|---|---|---|---|---|")
print("\n".join(rows))

table = "\n".join(out)
if "--update" in sys.argv:
    d = os.path.join(HERE, "DESIGN.md")
    t = open(d).read()
    b, e = "<!-- seed-table-begin -->", "<!-- seed-table-end -->"
    i, j = t.index(b) + len(b), t.index(e)
    open(d, "w").write(t[:i] + "\n" + table + "\n" + t[j:])
    _print(f"DESIGN.md table updated: {len(rows)} seeds")
else:
    _print(table)
