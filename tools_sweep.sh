#!/bin/sh
# Runs the quick tier of every claimed check for several seeds; evidence/replays go to a scratch dir.
# usage: ./tools_sweep.sh "<seeds>" [props...]
cd "$(dirname "$0")" || exit 2
SEEDS=${1:-"1 2 3"}; shift
PROPS=${*:-$(.venv/bin/python -c "import json;print(' '.join(c['property_id'] for c in json.load(open('MANIFEST.json'))['checks']))" 2>/dev/null)}
[ -x .venv/bin/python ] || ./setup.sh >/dev/null 2>&1
PROPS=${PROPS:-$(.venv/bin/python -c "import json;print(' '.join(c['property_id'] for c in json.load(open('MANIFEST.json'))['checks']))")}
OUT=$(mktemp -d /tmp/pv_sweep_XXXX)
trap 'rm -rf "$OUT"' EXIT
bad=0
for s in $SEEDS; do
  for p in $PROPS; do
    VERIF_SEED=$s PV_OUT=$OUT ./check $p ${TIER:-quick} > "$OUT/log" 2>&1
    rc=$?
    tail -1 "$OUT/log" | sed "s/^/seed=$s rc=$rc /"
    if [ $rc -ne 0 ]; then bad=1; grep -E "VIOLATION|INCONCLUSIVE|Traceback" "$OUT/log" | head -5; fi
  done
done
exit $bad
