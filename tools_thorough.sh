#!/bin/sh
# Runs the thorough tier of the given (default: all claimed) checks one after the other and prints a summary line each.
cd "$(dirname "$0")" || exit 2
[ -x .venv/bin/python ] || ./setup.sh >/dev/null 2>&1
PROPS=${*:-$(.venv/bin/python -c "import json;print(' '.join(c['property_id'] for c in json.load(open('MANIFEST.json'))['checks']))")}
for p in $PROPS; do
  s=$(date +%s)
  ./check $p thorough > /tmp/pv_thorough_$p.log 2>&1; rc=$?
  e=$(date +%s)
  echo "$p rc=$rc wall=$((e-s))s $(grep '^\[' /tmp/pv_thorough_$p.log | tail -1)"
  grep -E "VIOLATION|INCONCLUSIVE|KNOWN-FINDING" /tmp/pv_thorough_$p.log | head -5
done
