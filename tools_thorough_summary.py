#!/usr/bin/env python3
"""Builds thorough_runs.json from the output of tools_thorough.sh:  tools_thorough_summary.py <log> [<log> ...] (later logs win)."""
import json, os, re, sys
HERE = os.path.dirname(os.path.abspath(__file__))
out = {}
p = os.path.join(HERE, "thorough_runs.json")
if os.path.exists(p):
    out = json.load(open(p))
pat = re.compile(r"^(C\d\d) rc=(\d+) wall=(\d+)s \[C\d\d\] paths=(\d+) obligations=(\d+)/(\d+) replays=(\d+) .*violations=(\d+)")
for f in sys.argv[1:]:
    for line in open(f, errors="replace"):
        m = pat.match(line)
        if m:
            k, rc, wall, paths, ok, obl, rep, viol = m.groups()
            out[k] = {"wall": int(wall), "paths": int(paths), "obligations": f"{ok}/{obl}", "replays": int(rep), "result": "held (exit 0)" if rc == "0" else f"exit {rc}, {viol} violations", "source": os.path.basename(os.path.dirname(f)) or f}
json.dump(out, open(p, "w"), indent=1, sort_keys=True)
print(len(out), "thorough runs recorded")
